package main

// Long-lived solver processes (z3 -in, cvc5 --incremental) fed with
// self-contained push/pop scripts.

import (
	"bufio"
	"fmt"
	"io"
	"os"
	"os/exec"
	"strconv"
	"strings"
	"sync"
	"time"
)

type SatResult int

const (
	Unsat SatResult = iota
	Sat
	Unknown
)

func (r SatResult) String() string {
	return [...]string{"unsat", "sat", "unknown"}[r]
}

type solverProc struct {
	kind  string // "z3-new", "z3", "cvc5"
	cmd   *exec.Cmd
	in    io.WriteCloser
	out   *bufio.Reader
	capMs int
}

func solverArgs(kind string, capMs int) (string, []string) {
	switch kind {
	case "cvc5":
		return "cvc5", []string{"--incremental", "--lang=smt2", "--produce-models", fmt.Sprintf("--tlimit-per=%d", capMs)}
	case "z3":
		return "z3", []string{"-in", fmt.Sprintf("-t:%d", capMs)}
	default:
		return "z3-new", []string{"-in", fmt.Sprintf("-t:%d", capMs)}
	}
}

func startSolver(kind string, capMs int) (*solverProc, error) {
	bin, args := solverArgs(kind, capMs)
	cmd := exec.Command(bin, args...)
	in, err := cmd.StdinPipe()
	if err != nil {
		return nil, err
	}
	out, err := cmd.StdoutPipe()
	if err != nil {
		return nil, err
	}
	cmd.Stderr = cmd.Stdout
	if err := cmd.Start(); err != nil {
		return nil, err
	}
	sp := &solverProc{kind: kind, cmd: cmd, in: in, out: bufio.NewReaderSize(out, 1<<16), capMs: capMs}
	hdr := "(set-option :produce-models true)\n"
	if kind == "cvc5" {
		hdr += "(set-logic ALL)\n"
	}
	io.WriteString(in, hdr)
	return sp, nil
}

func (sp *solverProc) kill() {
	if sp.cmd != nil && sp.cmd.Process != nil {
		sp.cmd.Process.Kill()
		sp.cmd.Wait()
	}
}

// readSexp reads one complete top-level s-expression or atom line.
func (sp *solverProc) readSexp() (string, error) {
	var sb strings.Builder
	depth := 0
	started := false
	inBar := false
	for {
		c, err := sp.out.ReadByte()
		if err != nil {
			return sb.String(), err
		}
		if !started {
			if c == ' ' || c == '\n' || c == '\r' || c == '\t' {
				continue
			}
			started = true
		}
		sb.WriteByte(c)
		if c == '|' {
			inBar = !inBar
		}
		if inBar {
			continue
		}
		if c == '(' {
			depth++
		} else if c == ')' {
			depth--
			if depth == 0 {
				return sb.String(), nil
			}
		} else if depth == 0 && (c == '\n') {
			return strings.TrimSpace(sb.String()), nil
		}
	}
}

type SolverStats struct {
	mu        sync.Mutex
	Queries   int
	Sat       int
	Unsat     int
	Unknown   int
	Errors    int
	TimeS     float64
	MaxS      float64
	BySolver  map[string]int
	CacheHits int
}

func (st *SolverStats) add(kind string, r SatResult, d time.Duration, isErr bool) {
	st.mu.Lock()
	defer st.mu.Unlock()
	st.Queries++
	switch r {
	case Sat:
		st.Sat++
	case Unsat:
		st.Unsat++
	default:
		st.Unknown++
	}
	if isErr {
		st.Errors++
	}
	s := d.Seconds()
	st.TimeS += s
	if s > st.MaxS {
		st.MaxS = s
	}
	if st.BySolver == nil {
		st.BySolver = map[string]int{}
	}
	st.BySolver[kind]++
}

// Solver is the per-harness front end: picks a back end per query.
type Solver struct {
	ts      *TermStore
	procs   map[string]*solverProc
	capMs   int
	stats   *SolverStats
	cache   map[string]cachedResult
	prefer  string // "", "z3-new", "cvc5", "z3"
	obligation bool // the query being decided is an assertion obligation (set by doAssert)
	diffAll bool   // decide every query on two solvers and compare
	log     io.Writer
	nq      int
}

type cachedResult struct {
	r SatResult
	m Model
}

func NewSolver(ts *TermStore, capMs int, stats *SolverStats) *Solver {
	return &Solver{ts: ts, procs: map[string]*solverProc{}, capMs: capMs, stats: stats, cache: map[string]cachedResult{}}
}

func (s *Solver) Close() {
	for _, p := range s.procs {
		io.WriteString(p.in, "(exit)\n")
		p.in.Close()
		done := make(chan struct{})
		go func(p *solverProc) { p.cmd.Wait(); close(done) }(p)
		select {
		case <-done:
		case <-time.After(2 * time.Second):
			p.cmd.Process.Kill()
		}
	}
	s.procs = map[string]*solverProc{}
}

func (s *Solver) proc(kind string) (*solverProc, error) {
	if p, ok := s.procs[kind]; ok {
		return p, nil
	}
	p, err := startSolver(strings.TrimSuffix(kind, "#diff"), s.capFor(kind))
	if err != nil {
		return nil, err
	}
	s.procs[kind] = p
	return p, nil
}

// capFor: the second opinion of the thorough tier ("<solver>#diff") never gets more
// than 20 s per query - cvc5 needs minutes on some queries z3 answers in seconds, and
// an unknown second opinion leaves the first answer standing.
func (s *Solver) capFor(kind string) int {
	if strings.HasSuffix(kind, "#diff") && s.capMs > 20000 {
		return 20000
	}
	return s.capMs
}

func parseBVValue(tok string) (uint64, bool) {
	switch {
	case tok == "true":
		return 1, true
	case tok == "false":
		return 0, true
	case strings.HasPrefix(tok, "#x"):
		v, err := strconv.ParseUint(tok[2:], 16, 64)
		return v, err == nil
	case strings.HasPrefix(tok, "#b"):
		v, err := strconv.ParseUint(tok[2:], 2, 64)
		return v, err == nil
	}
	return 0, false
}

// parseValues parses "((name val) (name val) ...)" in order.
func parseValues(s string, n int) ([]uint64, bool) {
	// tokenise
	var toks []string
	i := 0
	for i < len(s) {
		c := s[i]
		switch {
		case c == '(' || c == ')':
			toks = append(toks, string(c))
			i++
		case c == ' ' || c == '\n' || c == '\t' || c == '\r':
			i++
		case c == '|':
			j := strings.IndexByte(s[i+1:], '|')
			if j < 0 {
				return nil, false
			}
			toks = append(toks, s[i:i+j+2])
			i += j + 2
		default:
			j := i
			for j < len(s) && !strings.ContainsRune("() \n\t\r", rune(s[j])) {
				j++
			}
			toks = append(toks, s[i:j])
			i = j
		}
	}
	// expect ( ( name val ) ... )
	var vals []uint64
	p := 0
	if p >= len(toks) || toks[p] != "(" {
		return nil, false
	}
	p++
	for p < len(toks) && toks[p] == "(" {
		p++ // (
		p++ // name
		if p >= len(toks) {
			return nil, false
		}
		if toks[p] == "(" {
			// (_ bvN w)
			if p+4 < len(toks) && toks[p+1] == "_" && strings.HasPrefix(toks[p+2], "bv") {
				v, err := strconv.ParseUint(toks[p+2][2:], 10, 64)
				if err != nil {
					return nil, false
				}
				vals = append(vals, v)
				p += 5
			} else {
				return nil, false
			}
		} else {
			v, ok := parseBVValue(toks[p])
			if !ok {
				return nil, false
			}
			vals = append(vals, v)
			p++
		}
		if p >= len(toks) || toks[p] != ")" {
			return nil, false
		}
		p++
	}
	if len(vals) != n {
		return nil, false
	}
	return vals, true
}

// runOn decides one query on the named solver. A transport-level failure (the
// solver process died, a pipe error, an "(error" answer) is retried once on a
// fresh process before it is counted as a solver error.
func (s *Solver) runOn(kind string, script string, vars []*Term, wantModel bool) (SatResult, Model, bool) {
	r, m, isErr := s.runOnce(kind, script, vars, wantModel, false)
	if isErr {
		r, m, isErr = s.runOnce(kind, script, vars, wantModel, true)
	}
	return r, m, isErr
}

func (s *Solver) runOnce(kind string, script string, vars []*Term, wantModel bool, final bool) (SatResult, Model, bool) {
	p, err := s.proc(kind)
	if err != nil {
		return Unknown, nil, true
	}
	start := time.Now()
	type res struct {
		r     SatResult
		m     Model
		isErr bool
	}
	ch := make(chan res, 1)
	go func() {
		var sb strings.Builder
		sb.WriteString("(push 1)\n")
		sb.WriteString(script)
		sb.WriteString("(check-sat)\n")
		if _, err := io.WriteString(p.in, sb.String()); err != nil {
			ch <- res{Unknown, nil, true}
			return
		}
		line, err := p.readSexp()
		if err != nil {
			ch <- res{Unknown, nil, true}
			return
		}
		isErr := false
		for strings.HasPrefix(line, "(error") || strings.HasPrefix(line, "(warning") || strings.Contains(line, "unsupported") {
			if strings.HasPrefix(line, "(error") {
				isErr = true
				if s.log != nil {
					fmt.Fprintf(s.log, "solver %s: %s\n", kind, line)
				}
			}
			line, err = p.readSexp()
			if err != nil {
				ch <- res{Unknown, nil, true}
				return
			}
		}
		var r SatResult
		switch line {
		case "sat":
			r = Sat
		case "unsat":
			r = Unsat
		default:
			r = Unknown
		}
		if isErr {
			r = Unknown
		}
		var m Model
		if r == Sat && wantModel && len(vars) > 0 {
			var q strings.Builder
			q.WriteString("(get-value (")
			for _, v := range vars {
				q.WriteString(smtName(v.Name) + " ")
			}
			q.WriteString("))\n")
			io.WriteString(p.in, q.String())
			out, err := p.readSexp()
			if err == nil {
				if vals, ok := parseValues(out, len(vars)); ok {
					m = Model{}
					for i, v := range vars {
						m[v.ID] = vals[i]
					}
				} else if s.log != nil {
					fmt.Fprintf(s.log, "solver %s: cannot parse model: %.200s\n", kind, out)
				}
			}
		} else if r == Sat {
			m = Model{}
		}
		io.WriteString(p.in, "(pop 1)\n")
		ch <- res{r, m, isErr}
	}()
	var out res
	select {
	case out = <-ch:
	case <-time.After(time.Duration(s.capFor(kind))*time.Millisecond + 15*time.Second):
		p.kill()
		delete(s.procs, kind)
		out = res{Unknown, nil, false}
	}
	if out.isErr {
		// restart to get a clean state
		p.kill()
		delete(s.procs, kind)
	}
	s.stats.add(kind, out.r, time.Since(start), out.isErr && final)
	if dir := os.Getenv("VCHECK_SLOWDUMP"); dir != "" && time.Since(start) > 5*time.Second {
		slowN++
		os.WriteFile(fmt.Sprintf("%s/slow-%s-%d-%d.smt2", dir, kind, os.Getpid(), slowN), []byte(script+"(check-sat)\n"), 0o644)
	}
	return out.r, out.m, out.isErr
}

var slowN int

// Check decides satisfiability of the conjunction.
func (s *Solver) Check(asserts []*Term, wantModel bool) (SatResult, Model) {
	// trivial cases
	var live []*Term
	hasMul := false
	for _, a := range asserts {
		if a.IsFalse() {
			return Unsat, nil
		}
		if a.IsTrue() {
			continue
		}
		live = append(live, a)
		if a.hasMul {
			hasMul = true
		}
	}
	if len(live) == 0 {
		return Sat, Model{}
	}
	var kb strings.Builder
	for _, a := range live {
		fmt.Fprintf(&kb, "%d,", a.ID)
	}
	key := kb.String()
	if c, ok := s.cache[key]; ok && (!wantModel || c.r != Sat || c.m != nil) {
		s.stats.mu.Lock()
		s.stats.CacheHits++
		s.stats.mu.Unlock()
		return c.r, c.m
	}
	script, vars := s.ts.Script(live)
	s.nq++
	first, second := "z3-new", "cvc5"
	if hasMul {
		first, second = "cvc5", "z3-new"
	}
	if s.prefer != "" {
		first = s.prefer
		if first == second {
			second = "z3-new"
		}
	}
	r, m, _ := s.runOn(first, script, vars, true)
	if r == Unknown {
		r, m, _ = s.runOn(second, script, vars, true)
	} else if s.diffAll && s.obligation && r == Unsat {
		// Thorough tier: every discharged obligation (an assertion that was found to
		// hold) is re-decided by the second solver. Branch-feasibility queries are not:
		// re-deciding those as well made cvc5 the bottleneck by two orders of magnitude
		// on the UF-heavy container lemmas. A "sat" answer carries a model that is
		// validated by evaluation below, so it needs no second opinion.
		r2, _, _ := s.runOn(second+"#diff", script, vars, false)
		if r2 != Unknown && r2 != r {
			if s.log != nil {
				fmt.Fprintf(s.log, "SOLVER-DISAGREEMENT %s=%v %s=%v\n", first, r, second, r2)
			}
			r = Unknown
		}
	}
	if r == Sat && m != nil {
		// validate the model by evaluation when there are no UFs involved
		ok := true
		for _, a := range live {
			if containsUF(a) {
				ok = true
				break
			}
			if s.ts.Eval(a, m, nil) == 0 {
				ok = false
				break
			}
		}
		if !ok {
			if s.log != nil {
				fmt.Fprintf(s.log, "MODEL-INVALID (solver %s)\n", first)
			}
			r, m = Unknown, nil
		}
	}
	s.cache[key] = cachedResult{r, m}
	return r, m
}

var ufMemo = map[int]bool{}
var ufMemoMu sync.Mutex

func containsUF(t *Term) bool {
	seen := map[int]bool{}
	var f func(t *Term) bool
	f = func(t *Term) bool {
		if seen[t.ID] {
			return false
		}
		seen[t.ID] = true
		if t.Op == OpUF {
			return true
		}
		for _, a := range t.Args {
			if f(a) {
				return true
			}
		}
		return false
	}
	return f(t)
}
