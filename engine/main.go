package main

import (
	"flag"
	"fmt"
	"os"
	"sort"
	"strconv"
	"time"
)

func envOr(k, d string) string {
	if v := os.Getenv(k); v != "" {
		return v
	}
	return d
}

func main() {
	if len(os.Args) < 2 {
		fmt.Fprintln(os.Stderr, "usage: vcheck harness|run|replay|list ...")
		os.Exit(2)
	}
	switch os.Args[1] {
	case "harness":
		cmdHarness(os.Args[2:])
	case "run":
		cmdRun(os.Args[2:])
	case "replay":
		cmdReplay(os.Args[2:])
	default:
		fmt.Fprintln(os.Stderr, "unknown command", os.Args[1])
		os.Exit(2)
	}
}

func cmdHarness(args []string) {
	fs := flag.NewFlagSet("harness", flag.ExitOnError)
	repo := fs.String("repo", envOr("VERIF_REPO", "/repo"), "repository")
	verif := fs.String("verif", envOr("VERIF_DIR", "/verif"), "verif dir")
	capMs := fs.Int("cap", 60000, "solver cap per query (ms)")
	concrete := fs.Int64("concrete", -1, "run concretely with this seed")
	trace := fs.Bool("trace", false, "trace instructions")
	wall := fs.Duration("wall", 10*time.Minute, "wall limit")
	shard := fs.String("shard", "", "k/n: explore only shard k of n")
	thorough := fs.Bool("thorough", false, "thorough bounds")
	fs.Parse(args)
	if fs.NArg() < 2 {
		fmt.Fprintln(os.Stderr, "usage: vcheck harness <pkgkey> <VH_name>...")
		os.Exit(2)
	}
	t0 := time.Now()
	ld, err := Load(*repo, *verif)
	if err != nil {
		fmt.Fprintln(os.Stderr, err)
		os.Exit(2)
	}
	fmt.Fprintf(os.Stderr, "loaded in %.1fs\n", time.Since(t0).Seconds())
	key := fs.Arg(0)
	for _, name := range fs.Args()[1:] {
		fn := ld.harnesses[key][name]
		if fn == nil {
			fmt.Fprintf(os.Stderr, "no harness %s in %s\n", name, key)
			os.Exit(2)
		}
		stats := &SolverStats{}
		opt := RunOpts{CapMs: *capMs, Wall: *wall, Concrete: *concrete >= 0, Seed: uint64(*concrete), Trace: *trace, Thorough: *thorough}
		if *shard != "" {
			fmt.Sscanf(*shard, "%d/%d", &opt.Shard, &opt.Shards)
		}
		res := RunHarness(ld, key, name, opt, stats)
		printResult(res)
	}
}

func printResult(res *HarnessResult) {
	fmt.Printf("== %s: paths=%d steps=%d forks=%d ifconv=%d obligations=%d discharged=%d trivial=%d wall=%.1fs\n",
		res.Name, res.Paths, res.Steps, res.Forks, res.IfConv, res.Obligations, res.Discharged, res.Trivial, res.WallS)
	fmt.Printf("   ended: %v reached: %v\n", res.Ended, res.Reached)
	fmt.Printf("   solver: %d queries (%d sat, %d unsat, %d unknown, %d errors) %.1fs max %.1fs cache %d by %v\n",
		res.Solver.Queries, res.Solver.Sat, res.Solver.Unsat, res.Solver.Unknown, res.Solver.Errors, res.Solver.TimeS, res.Solver.MaxS, res.Solver.CacheHits, res.Solver.BySolver)
	var labels []string
	for l := range res.Asserts {
		labels = append(labels, l)
	}
	sort.Strings(labels)
	for _, l := range labels {
		a := res.Asserts[l]
		fmt.Printf("   assert %-40q checked=%d unsat=%d sat=%d unknown=%d trivial=%d\n", l, a.Checked, a.Unsat, a.Sat, a.Unknown, a.Trivial)
	}
	for _, v := range res.Violations {
		fmt.Printf("   VIOLATION %s [%s] at %s\n", v.Label, v.Kind, v.Site)
		for _, n := range v.Order {
			fmt.Printf("      %s = 0x%s\n", n, v.Nondet[n])
		}
		if v.Stack != "" {
			fmt.Print(v.Stack)
		}
	}
	for i, s := range res.Inconclusive {
		if i > 10 {
			fmt.Printf("   ... %d more\n", len(res.Inconclusive)-i)
			break
		}
		fmt.Printf("   INCONCLUSIVE %s\n", s)
	}
	for i, s := range res.Notes {
		if i > 5 {
			break
		}
		fmt.Printf("   note: %s\n", s)
	}
	if len(res.GlobalWrites) > 0 {
		fmt.Printf("   global writes: %v\n", res.GlobalWrites)
	}
	if len(res.Obs) > 0 && len(res.Obs[0]) > 0 {
		fmt.Printf("   obs[0]: %v\n", res.Obs[0])
	}
}

var _ = strconv.Itoa

func cmdReplay(args []string) { fmt.Println("not yet") }
