package main

import (
	"encoding/json"
	"flag"
	"fmt"
	"os"
	"path/filepath"
	"sort"
	"strconv"
	"time"
)

func envOr(k, d string) string {
	if v := os.Getenv(k); v != "" {
		return v
	}
	return d
}

func main() {
	if len(os.Args) < 2 {
		fmt.Fprintln(os.Stderr, "usage: vcheck harness|run|replay|list ...")
		os.Exit(2)
	}
	switch os.Args[1] {
	case "harness":
		cmdHarness(os.Args[2:])
	case "run":
		cmdRun(os.Args[2:])
	case "replay":
		cmdReplay(os.Args[2:])
	default:
		fmt.Fprintln(os.Stderr, "unknown command", os.Args[1])
		os.Exit(2)
	}
}

func cmdHarness(args []string) {
	fs := flag.NewFlagSet("harness", flag.ExitOnError)
	repo := fs.String("repo", envOr("VERIF_REPO", "/repo"), "repository")
	verif := fs.String("verif", envOr("VERIF_DIR", "/verif"), "verif dir")
	capMs := fs.Int("cap", 60000, "solver cap per query (ms)")
	concrete := fs.Int64("concrete", -1, "run concretely with this seed")
	trace := fs.Bool("trace", false, "trace instructions")
	wall := fs.Duration("wall", 10*time.Minute, "wall limit")
	shard := fs.String("shard", "", "k/n: explore only shard k of n")
	thorough := fs.Bool("thorough", false, "thorough bounds")
	diff := fs.Bool("diff", false, "re-decide every query on the second solver (thorough tier behaviour)")
	dumpSSA := fs.Bool("ssa", false, "print the SSA form of the harness function and exit")
	fs.Parse(args)
	if fs.NArg() < 2 {
		fmt.Fprintln(os.Stderr, "usage: vcheck harness <pkgkey> <VH_name>...")
		os.Exit(2)
	}
	t0 := time.Now()
	ld, err := Load(*repo, *verif)
	if err != nil {
		fmt.Fprintln(os.Stderr, err)
		os.Exit(2)
	}
	fmt.Fprintf(os.Stderr, "loaded in %.1fs\n", time.Since(t0).Seconds())
	key := fs.Arg(0)
	for _, name := range fs.Args()[1:] {
		fn := ld.harnesses[key][name]
		if fn == nil {
			fmt.Fprintf(os.Stderr, "no harness %s in %s\n", name, key)
			os.Exit(2)
		}
		if *dumpSSA {
			fn.WriteTo(os.Stdout)
			continue
		}
		stats := &SolverStats{}
		opt := RunOpts{CapMs: *capMs, Wall: *wall, Concrete: *concrete >= 0, Seed: uint64(*concrete), Trace: *trace, Thorough: *thorough, Diff: *diff}
		if *shard != "" {
			fmt.Sscanf(*shard, "%d/%d", &opt.Shard, &opt.Shards)
		}
		res := RunHarness(ld, key, name, opt, stats)
		printResult(res)
	}
}

func printResult(res *HarnessResult) {
	fmt.Printf("== %s: paths=%d steps=%d forks=%d ifconv=%d obligations=%d discharged=%d trivial=%d wall=%.1fs\n",
		res.Name, res.Paths, res.Steps, res.Forks, res.IfConv, res.Obligations, res.Discharged, res.Trivial, res.WallS)
	fmt.Printf("   ended: %v reached: %v\n", res.Ended, res.Reached)
	fmt.Printf("   solver: %d queries (%d sat, %d unsat, %d unknown, %d errors) %.1fs max %.1fs cache %d by %v\n",
		res.Solver.Queries, res.Solver.Sat, res.Solver.Unsat, res.Solver.Unknown, res.Solver.Errors, res.Solver.TimeS, res.Solver.MaxS, res.Solver.CacheHits, res.Solver.BySolver)
	var labels []string
	for l := range res.Asserts {
		labels = append(labels, l)
	}
	sort.Strings(labels)
	for _, l := range labels {
		a := res.Asserts[l]
		fmt.Printf("   assert %-40q checked=%d unsat=%d sat=%d unknown=%d trivial=%d\n", l, a.Checked, a.Unsat, a.Sat, a.Unknown, a.Trivial)
	}
	for _, v := range res.Violations {
		fmt.Printf("   VIOLATION %s [%s] at %s\n", v.Label, v.Kind, v.Site)
		for _, n := range v.Order {
			fmt.Printf("      %s = 0x%s\n", n, v.Nondet[n])
		}
		if v.Stack != "" {
			fmt.Print(v.Stack)
		}
		for _, o := range v.Obs {
			fmt.Printf("      obs %s = %d\n", o.Label, o.Val)
		}
	}
	for i, s := range res.Inconclusive {
		if i > 10 {
			fmt.Printf("   ... %d more\n", len(res.Inconclusive)-i)
			break
		}
		fmt.Printf("   INCONCLUSIVE %s\n", s)
	}
	for i, s := range res.Notes {
		if i > 5 {
			break
		}
		fmt.Printf("   note: %s\n", s)
	}
	if len(res.GlobalWrites) > 0 {
		fmt.Printf("   global writes: %d sites (first: %s)\n", len(res.GlobalWrites), res.GlobalWrites[0])
	}
	if len(res.Obs) > 0 && len(res.Obs[0]) > 0 {
		fmt.Printf("   obs[0]: %v\n", res.Obs[0])
	}
}

var _ = strconv.Itoa

// cmdReplay re-executes a counterexample file written by `vcheck run`:
// concretely in the interpreter and, unless the lemma has no native twin,
// natively through go test -overlay. Exit 1 if the violation reproduces.
func cmdReplay(args []string) {
	fs := flag.NewFlagSet("replay", flag.ExitOnError)
	repo := fs.String("repo", envOr("VERIF_REPO", "/repo"), "repository")
	verif := fs.String("verif", envOr("VERIF_DIR", "/verif"), "verif dir")
	trace := fs.Bool("trace", false, "trace instructions")
	fs.Parse(args)
	if fs.NArg() != 1 {
		fmt.Fprintln(os.Stderr, "usage: vcheck replay <replay.json>")
		os.Exit(2)
	}
	rpath, _ := filepath.Abs(fs.Arg(0))
	data, err := os.ReadFile(rpath)
	if err != nil {
		fmt.Fprintln(os.Stderr, err)
		os.Exit(2)
	}
	var rf struct {
		Property string            `json:"property"`
		Lemma    string            `json:"lemma"`
		Package  string            `json:"package"`
		Harness  string            `json:"harness"`
		Failed   string            `json:"failed"`
		Kind     string            `json:"kind"`
		Nondet   map[string]string `json:"nondet"`
	}
	if err := json.Unmarshal(data, &rf); err != nil {
		fmt.Fprintln(os.Stderr, err)
		os.Exit(2)
	}
	ld, err := Load(*repo, *verif)
	if err != nil {
		fmt.Println("STALE", err)
		os.Exit(2)
	}
	vals := map[string]uint64{}
	for k, hx := range rf.Nondet {
		x, _ := strconv.ParseUint(hx, 16, 64)
		vals[k] = x
	}
	thorough := os.Getenv("VERIF_THOROUGH") != ""
	ir := RunHarness(ld, rf.Package, rf.Harness, RunOpts{CapMs: 60000, Wall: 5 * time.Minute, Concrete: true, Values: vals, Trace: *trace, Thorough: thorough}, nil)
	v := Violation{Label: rf.Failed, Kind: rf.Kind}
	interpOK := reproduces(ir, v)
	fmt.Printf("interpreter (concrete): %s\n", boolWord(interpOK))
	for _, x := range ir.Violations {
		fmt.Printf("   violated: %s at %s\n", x.Label, x.Site)
		if x.Stack != "" {
			fmt.Print(x.Stack)
		}
	}
	if len(ir.Obs) > 0 {
		for _, o := range ir.Obs[0] {
			fmt.Printf("   obs %s = %d\n", o.Label, o.Val)
		}
	}
	nativeOK := false
	noNative := false
	if lf, err := readLemmas(*verif); err == nil {
		for _, l := range lf.Lemmas {
			if l.Name == rf.Lemma {
				noNative = l.NoNative
			}
		}
	}
	if !noNative {
		tmp, _ := os.MkdirTemp("", "vcheck-replay-")
		defer os.RemoveAll(tmp)
		nat := &nativeSide{repo: *repo, verif: *verif, tmp: tmp, bins: map[string]string{}, errs: map[string]string{}}
		nr, err := nat.runFile(rf.Package, rf.Harness, rpath, thorough)
		if err != nil {
			fmt.Println("native: failed to run:", err)
		} else {
			nativeOK = nativeReproduces(nr, v)
			fmt.Printf("native: %s (outcome %s, failed assert %q, panic %q)\n", boolWord(nativeOK), nr.Outcome, nr.Fail, nr.Panic)
		}
	} else {
		fmt.Println("native: not available (harness uses substitutions)")
	}
	if nativeOK || (noNative && interpOK) {
		fmt.Printf("VIOLATION property=%s replay=%s lemma=%s harness=%s assert=%q\n", rf.Property, fs.Arg(0), rf.Lemma, rf.Harness, rf.Failed)
		os.Exit(1)
	}
	os.Exit(0)
}
