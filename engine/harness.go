package main

import (
	"fmt"
	"os"
	"sort"
	"strconv"
	"time"
)

type RunOpts struct {
	CapMs    int
	Wall     time.Duration
	Concrete bool
	Seed     uint64
	Values   map[string]uint64 // concrete values by "name#k" (replay)
	Trace    bool
	Diff     bool
	MaxSteps int
	Thorough bool
	Shard    int // this run explores shard Shard of Shards (0 = unsharded)
	Shards   int
}

type HarnessResult struct {
	Pkg          string                 `json:"pkg"`
	Name         string                 `json:"name"`
	Paths        int                    `json:"paths"`
	Steps        int                    `json:"steps"`
	Forks        int                    `json:"forks"`
	IfConv       int                    `json:"branches_merged_by_if_conversion"`
	Obligations  int                    `json:"obligations"`
	Discharged   int                    `json:"discharged"`
	Trivial      int                    `json:"trivial"`
	Ended        map[string]int         `json:"ended"`
	Reached      map[string]int         `json:"reached"`
	Asserts      map[string]*AssertStat `json:"asserts"`
	Violations   []Violation            `json:"violations"`
	Inconclusive []string               `json:"inconclusive"`
	Notes        []string               `json:"notes,omitempty"`
	Functions    []string               `json:"functions_encoded"`
	GlobalWrites []string               `json:"global_writes,omitempty"`
	Solver       SolverStats            `json:"solver"`
	WallS        float64                `json:"wall_s"`
	Obs          [][]obsRec             `json:"-"`
	SamplePCs    []string               `json:"sample_path_conditions,omitempty"`
	Vacuous      bool                   `json:"vacuous"`
	Shard        string                 `json:"shard,omitempty"`
}

func vrtMix(seed uint64, key string) uint64 {
	h := seed*0x9e3779b97f4a7c15 + 0x632be59bd9b4e019
	for i := 0; i < len(key); i++ {
		h = (h ^ uint64(key[i])) * 0xff51afd7ed558ccd
		h ^= h >> 29
	}
	h ^= h >> 32
	h *= 0xc4ceb9fe1a85ec53
	h ^= h >> 31
	return h
}

func rngValue(seed uint64, key string, w int) uint64 {
	v := vrtMix(seed, key)
	switch v >> 61 {
	case 0:
		v = (v >> 8) & 0xff
	case 1:
		v = (v >> 8) & 0xffff
	case 2:
		v = ^uint64(0) - ((v >> 8) & 0xff)
	}
	return v & mask(w)
}

func RunHarness(ld *Loaded, key, name string, opt RunOpts, stats *SolverStats) *HarnessResult {
	t0 := time.Now()
	ps := specByKey(key)
	fn := ld.harnesses[key][name]
	local := &SolverStats{}
	r := NewRun(ld.in, opt.CapMs, local)
	r.pkgPath = ps.path
	r.wallLimit = opt.Wall
	r.thorough = opt.Thorough
	r.shard, r.shards = opt.Shard, opt.Shards
	r.solver.diffAll = opt.Diff
	if opt.MaxSteps > 0 {
		r.maxSteps = opt.MaxSteps
	}
	if os.Getenv("VCHECK_SOLVERLOG") != "" {
		r.solver.log = os.Stderr
	}
	if opt.Trace {
		r.traceW = os.Stderr
	}
	res := &HarnessResult{Pkg: key, Name: name}
	if err := r.initPackages(ld.in.pkgs[ps.path]); err != nil {
		res.Inconclusive = append(res.Inconclusive, err.Error())
		res.WallS = time.Since(t0).Seconds()
		return res
	}
	if opt.Concrete {
		r.concrete = true
		if opt.Values != nil {
			r.nondetSrc = func(k string, w int) uint64 { return opt.Values[k] & mask(w) }
		} else {
			r.nondetSrc = func(k string, w int) uint64 { return rngValue(opt.Seed, k, w) }
		}
	}
	r.Execute(fn)
	res.Paths = len(r.paths)
	res.Steps = r.steps
	res.Forks = r.forks
	res.IfConv = r.ifconv
	res.Obligations = r.obligations
	res.Discharged = r.discharged
	res.Trivial = r.trivial
	res.Ended = r.ended
	res.Reached = r.reached
	res.Asserts = r.assertStats
	res.Violations = r.violations
	res.Inconclusive = r.inconclusive
	res.Notes = r.notes
	res.Functions = r.sortedFns()
	for w := range r.globalWrites {
		res.GlobalWrites = append(res.GlobalWrites, w)
	}
	sort.Strings(res.GlobalWrites)
	res.Solver = SolverStats{Queries: local.Queries, Sat: local.Sat, Unsat: local.Unsat, Unknown: local.Unknown,
		Errors: local.Errors, TimeS: local.TimeS, MaxS: local.MaxS, BySolver: local.BySolver, CacheHits: local.CacheHits}
	if local.Errors > 0 {
		res.Inconclusive = append(res.Inconclusive, fmt.Sprintf("%d solver errors", local.Errors))
	}
	res.Obs = r.observations
	res.SamplePCs = r.samplePCs
	res.Vacuous = !opt.Concrete && r.reached["<end>"] == 0
	res.WallS = time.Since(t0).Seconds()
	if stats != nil {
		stats.mu.Lock()
		stats.Queries += local.Queries
		stats.Sat += local.Sat
		stats.Unsat += local.Unsat
		stats.Unknown += local.Unknown
		stats.Errors += local.Errors
		stats.TimeS += local.TimeS
		if local.MaxS > stats.MaxS {
			stats.MaxS = local.MaxS
		}
		stats.CacheHits += local.CacheHits
		if stats.BySolver == nil {
			stats.BySolver = map[string]int{}
		}
		for k, v := range local.BySolver {
			stats.BySolver[k] += v
		}
		stats.mu.Unlock()
	}
	return res
}

var _ = strconv.Itoa
