package main

import (
	"fmt"
	"go/constant"
	"go/token"
	"go/types"
	"os"
	"strings"
	"sync"

	"golang.org/x/tools/go/ssa"
)

// Interp holds the loaded program; shared read-only between runs.
type Interp struct {
	prog  *ssa.Program
	pkgs  map[string]*ssa.Package
	mu    sync.Mutex
	sizes map[types.Type]int
	finfo map[*ssa.Function]*fnInfo
}

type fnInfo struct {
	idx map[ssa.Value]int
	n   int
}

func (in *Interp) info(fn *ssa.Function) *fnInfo {
	in.mu.Lock()
	defer in.mu.Unlock()
	if fi, ok := in.finfo[fn]; ok {
		return fi
	}
	fi := &fnInfo{idx: map[ssa.Value]int{}}
	add := func(v ssa.Value) {
		fi.idx[v] = fi.n
		fi.n++
	}
	for _, p := range fn.Params {
		add(p)
	}
	for _, fv := range fn.FreeVars {
		add(fv)
	}
	for _, b := range fn.Blocks {
		for _, ins := range b.Instrs {
			if v, ok := ins.(ssa.Value); ok {
				add(v)
			}
		}
	}
	in.finfo[fn] = fi
	return fi
}

type frameKind int

const (
	fkNormal frameKind = iota
	fkDeferred
	fkDeferredPanic
	fkInit
)

type deferred struct {
	fn   Value
	args []Value
	inv  *ssa.Function
}

type Frame struct {
	fn      *ssa.Function
	info    *fnInfo
	env     []Value
	block   *ssa.BasicBlock
	prev    *ssa.BasicBlock
	pc      int
	defers  []deferred
	retDst  int
	kind    frameKind
	forks   map[int]int
	callPos token.Pos
}

func (f *Frame) clone() *Frame {
	c := *f
	c.env = make([]Value, len(f.env))
	copy(c.env, f.env)
	if len(f.defers) > 0 {
		c.defers = append([]deferred(nil), f.defers...)
	}
	if f.forks != nil {
		c.forks = make(map[int]int, len(f.forks))
		for k, v := range f.forks {
			c.forks[k] = v
		}
	}
	return &c
}

type goPanic struct {
	kind string // "index", "nil", "divzero", "typeassert", "explicit", "slice"
	val  Value
	site string
}

type nondetRec struct {
	Name string
	T    *Term
}

type Outcome struct {
	Kind string // return, panic, assume-false, endpath, unsupported, unwind, steplimit, infeasible
	Msg  string
}

type Path struct {
	run       *Run
	id        int
	frames    []*Frame
	heap      map[int]*Object
	epoch     int
	nextObj   int
	pc        []*Term
	model     Model
	conc      map[int]uint64
	nondets   []nondetRec
	steps     int
	panicking *goPanic
	recovered bool
	pending   *goPanic
	subst     map[string]Closure
	unwind    int
	outcome   *Outcome
	unknowns  int
	panicOK   bool
	onceDone  map[string]bool
	trace     []string
	obs       []obsRec
	lenient   bool
	ufTable   map[string]uint64
	pools     map[string][]Value  // sync.Pool contents, keyed by pool object
	syncMaps  map[string][]syncKV // sync.Map contents
	pure      bool                // speculative evaluation during if-conversion: anything that would fork or raise aborts
}

type obsRec struct {
	Label string
	Val   uint64
}

type tailCall struct {
	cl   Closure
	args []Value
}

type forkRequest struct {
	t     *Term
	cands []uint64
}

type unsupported struct{ msg string }

func (p *Path) unsup(format string, a ...interface{}) {
	if p.pure {
		panic(impureAbort{})
	}
	panic(unsupported{fmt.Sprintf(format, a...)})
}

func (p *Path) clone() *Path {
	r := p.run
	r.nextPath++
	r.epochs++
	c := *p
	c.id = r.nextPath
	c.epoch = r.epochs
	r.epochs++
	p.epoch = r.epochs
	c.frames = make([]*Frame, len(p.frames))
	for i, f := range p.frames {
		c.frames[i] = f.clone()
	}
	c.heap = make(map[int]*Object, len(p.heap)+8)
	for k, v := range p.heap {
		c.heap[k] = v
	}
	c.pc = append([]*Term(nil), p.pc...)
	c.conc = make(map[int]uint64, len(p.conc))
	for k, v := range p.conc {
		c.conc[k] = v
	}
	c.nondets = append([]nondetRec(nil), p.nondets...)
	c.subst = make(map[string]Closure, len(p.subst))
	for k, v := range p.subst {
		c.subst[k] = v
	}
	c.onceDone = make(map[string]bool, len(p.onceDone))
	for k, v := range p.onceDone {
		c.onceDone[k] = v
	}
	c.obs = append([]obsRec(nil), p.obs...)
	if p.syncMaps != nil {
		c.syncMaps = make(map[string][]syncKV, len(p.syncMaps))
		for k, v := range p.syncMaps {
			c.syncMaps[k] = v // slices are copied on write
		}
	}
	if p.pools != nil {
		c.pools = make(map[string][]Value, len(p.pools))
		for k, v := range p.pools {
			c.pools[k] = append([]Value(nil), v...)
		}
	}
	if p.ufTable != nil {
		c.ufTable = make(map[string]uint64, len(p.ufTable))
		for k, v := range p.ufTable {
			c.ufTable[k] = v
		}
	}
	if p.panicking != nil {
		pp := *p.panicking
		c.panicking = &pp
	}
	return &c
}

// ---------------------------------------------------------------------
// heap

func (p *Path) obj(id int) *Object {
	if o, ok := p.heap[id]; ok {
		return o
	}
	if o, ok := p.run.base[id]; ok {
		return o
	}
	panic(fmt.Sprintf("no object %d", id))
}

func (p *Path) mut(id int) *Object {
	o := p.obj(id)
	if o.Epoch == p.epoch {
		return o
	}
	if o.Epoch == -1 && !o.Global {
		// an object created by package initialisation is being written at run time
		p.run.noteGlobalWrite(p, o)
	}
	c := o.clone(p.epoch)
	p.heap[id] = c
	return c
}

func (p *Path) newObj(n int, zero []Value, name string) *Object {
	p.nextObj++
	o := &Object{ID: p.nextObj, N: n, Zero: zero, Epoch: p.epoch, Name: name}
	if len(zero) == 0 {
		o.Zero = []Value{Opaque{"empty"}}
	}
	if n <= denseLimit {
		o.Dense = make([]Value, n)
		for i := 0; i < n; i++ {
			o.Dense[i] = o.Zero[i%len(o.Zero)]
		}
	} else {
		o.Sparse = map[int]Value{}
	}
	p.heap[o.ID] = o
	return o
}

func (p *Path) allocType(t types.Type, name string) Ptr {
	n := p.run.in.sizeof(t)
	var zero []Value
	if arr, ok := t.Underlying().(*types.Array); ok && arr.Len() > 0 {
		zero = p.run.zeroCells(arr.Elem())
	} else {
		zero = p.run.zeroCells(t)
	}
	o := p.newObj(n, zero, name)
	return Ptr{Obj: o.ID}
}

// ---------------------------------------------------------------------
// path condition, feasibility

func (p *Path) ts() *TermStore { return p.run.ts }

// sliceFor returns the conjuncts of pc relevant to the given terms
// (sharing variables transitively).
func (p *Path) sliceFor(extra ...*Term) []*Term {
	r := p.run
	if r.noSlicing {
		return append(append([]*Term(nil), p.pc...), extra...)
	}
	want := map[int]bool{}
	for _, e := range extra {
		for v := range r.varsOf(e) {
			want[v] = true
		}
	}
	used := make([]bool, len(p.pc))
	changed := true
	for changed {
		changed = false
		for i, c := range p.pc {
			if used[i] {
				continue
			}
			vs := r.varsOf(c)
			hit := false
			for v := range vs {
				if want[v] {
					hit = true
					break
				}
			}
			if hit {
				used[i] = true
				changed = true
				for v := range vs {
					want[v] = true
				}
			}
		}
	}
	var out []*Term
	for i, c := range p.pc {
		if used[i] {
			out = append(out, c)
		}
	}
	return append(out, extra...)
}

func (r *Run) varsOf(t *Term) map[int]bool {
	if vs, ok := r.varCache[t.ID]; ok {
		return vs
	}
	vs := map[int]bool{}
	switch t.Op {
	case OpVar:
		vs[t.ID] = true
	case OpConst:
	default:
		for _, a := range t.Args {
			for v := range r.varsOf(a) {
				vs[v] = true
			}
		}
		if t.Op == OpUF {
			// all applications of one UF are related by congruence
			vs[-int(hashName(t.Name))-1] = true
		}
	}
	r.varCache[t.ID] = vs
	return vs
}

func hashName(s string) uint32 {
	h := uint32(2166136261)
	for i := 0; i < len(s); i++ {
		h = (h ^ uint32(s[i])) * 16777619
	}
	return h & 0x3fffffff
}

// evalModel evaluates a term under the path's cached model.
func (p *Path) evalModel(t *Term) (uint64, bool) {
	if p.model == nil {
		return 0, false
	}
	if containsUF(t) {
		return 0, false
	}
	return p.ts().Eval(t, p.model, nil), true
}

// feasible decides whether pc ∧ c is satisfiable. Unknown counts as feasible.
func (p *Path) feasible(c *Term) (bool, Model) {
	if c.IsTrue() {
		return true, p.model
	}
	if c.IsFalse() {
		return false, nil
	}
	if v, ok := p.evalModel(c); ok && v != 0 {
		return true, p.model
	}
	q := p.sliceFor(c)
	res, m := p.run.solver.Check(q, true)
	switch res {
	case Unsat:
		return false, nil
	case Sat:
		return true, p.mergeModel(m)
	}
	p.unknowns++
	p.run.note("unknown feasibility in %s", p.where())
	return true, nil
}

func (p *Path) mergeModel(m Model) Model {
	if m == nil {
		return nil
	}
	if p.model == nil {
		return m
	}
	out := make(Model, len(p.model)+len(m))
	for k, v := range p.model {
		out[k] = v
	}
	for k, v := range m {
		out[k] = v
	}
	return out
}

func (p *Path) assume(c *Term) {
	if c.IsTrue() {
		return
	}
	p.pc = append(p.pc, c)
}

func (p *Path) where() string {
	if len(p.frames) == 0 {
		return "<no frame>"
	}
	f := p.frames[len(p.frames)-1]
	pos := token.NoPos
	if f.block != nil && f.pc < len(f.block.Instrs) {
		pos = f.block.Instrs[f.pc].Pos()
	}
	s := f.fn.String()
	if pos.IsValid() {
		ps := p.run.in.prog.Fset.Position(pos)
		s += fmt.Sprintf(" (%s:%d)", shortFile(ps.Filename), ps.Line)
	}
	return s
}

func shortFile(f string) string {
	if i := strings.LastIndex(f, "/"); i >= 0 {
		return f[i+1:]
	}
	return f
}

func (p *Path) stack() string {
	var sb strings.Builder
	for i := len(p.frames) - 1; i >= 0 && i >= len(p.frames)-12; i-- {
		f := p.frames[i]
		pos := token.NoPos
		if f.block != nil && f.pc < len(f.block.Instrs) {
			pos = f.block.Instrs[f.pc].Pos()
		}
		ps := p.run.in.prog.Fset.Position(pos)
		fmt.Fprintf(&sb, "  %s (%s:%d)\n", f.fn.String(), shortFile(ps.Filename), ps.Line)
	}
	return sb.String()
}

// concretize returns a concrete value for t, forking the path over the
// candidate values when necessary. cands==nil asks the solver to enumerate.
func (p *Path) concretize(t *Term, cands []uint64) uint64 {
	if t.IsConst() {
		return t.Val
	}
	if v, ok := p.conc[t.ID]; ok {
		return v
	}
	if p.pure {
		panic(impureAbort{})
	}
	panic(forkRequest{t, cands})
}

// ---------------------------------------------------------------------
// Go-level panics raised by the interpreted program

func (p *Path) raise(kind, msg string, val Value) {
	if p.pure {
		panic(impureAbort{})
	}
	gp := &goPanic{kind: kind, site: p.where(), val: val}
	if val == nil {
		gp.val = Iface{T: types.Typ[types.String], V: Str{S: "runtime error: " + msg}}
	}
	panic(gp)
}

// check continues only on paths where cond holds; where it can fail, a
// sibling path is spawned that raises the Go panic.
func (p *Path) check(cond *Term, kind, msg string) {
	if cond.IsTrue() {
		return
	}
	if cond.IsFalse() {
		p.raise(kind, msg, nil)
	}
	if p.pure {
		panic(impureAbort{})
	}
	neg := p.ts().BNot(cond)
	okNeg, mNeg := p.feasible(neg)
	okPos, mPos := p.feasible(cond)
	if okNeg && okPos {
		c := p.clone()
		c.assume(neg)
		c.model = mNeg
		gp := &goPanic{kind: kind, site: p.where()}
		gp.val = Iface{T: types.Typ[types.String], V: Str{S: "runtime error: " + msg}}
		c.pending = gp
		p.run.push(c)
		p.assume(cond)
		p.model = mPos
		return
	}
	if okNeg {
		p.assume(neg)
		p.model = mNeg
		p.raise(kind, msg, nil)
	}
	if okPos {
		p.assume(cond)
		p.model = mPos
		return
	}
	p.end("infeasible", "both sides of a check infeasible")
	panic(pathEnded{})
}

type pathEnded struct{}

func (p *Path) end(kind, msg string) {
	if p.outcome == nil {
		p.outcome = &Outcome{Kind: kind, Msg: msg}
	}
}

// ---------------------------------------------------------------------
// evaluation of operands

func (p *Path) top() *Frame { return p.frames[len(p.frames)-1] }

func (p *Path) eval(v ssa.Value) Value {
	switch v := v.(type) {
	case *ssa.Const:
		return p.constVal(v)
	case *ssa.Global:
		return Ptr{Obj: p.run.globalObj(v)}
	case *ssa.Function:
		return Closure{Fn: v}
	case *ssa.Builtin:
		return Closure{Bltn: v.Name()}
	}
	f := p.top()
	i, ok := f.info.idx[v]
	if !ok {
		p.unsup("value %s not in frame of %s", v.Name(), f.fn)
	}
	return f.env[i]
}

func (p *Path) set(v ssa.Value, val Value) {
	f := p.top()
	f.env[f.info.idx[v]] = val
}

func (p *Path) constVal(c *ssa.Const) Value {
	t := c.Type()
	if c.Value == nil {
		return p.run.zeroVal(t)
	}
	if w, signed, ok := intType(t); ok {
		if w == 0 {
			return p.ts().Bool(constant.BoolVal(c.Value))
		}
		if c.Value.Kind() == constant.Bool {
			return p.ts().Bool(constant.BoolVal(c.Value))
		}
		iv := constant.ToInt(c.Value)
		if signed {
			x, _ := constant.Int64Val(iv)
			return p.ts().Const(uint64(x), w)
		}
		x, exact := constant.Uint64Val(iv)
		if !exact {
			y, _ := constant.Int64Val(iv)
			x = uint64(y)
		}
		return p.ts().Const(x, w)
	}
	if isString(t) {
		return Str{S: constant.StringVal(c.Value)}
	}
	if isFloat(t) {
		return Opaque{"float const"}
	}
	return p.run.zeroVal(t)
}

func (p *Path) term(v Value) *Term {
	t, ok := v.(*Term)
	if !ok {
		p.unsup("expected scalar, got %T (%v)", v, v)
	}
	return t
}

// toInt64 converts a scalar of Go type t to a 64-bit index term.
func (p *Path) toInt64(x *Term, t types.Type) *Term {
	if x.W == 64 {
		return x
	}
	_, signed, _ := intType(t)
	if signed {
		return p.ts().SExt(x, 64)
	}
	return p.ts().ZExt(x, 64)
}

// ---------------------------------------------------------------------
// memory access

func (p *Path) resolve(ptr Ptr) Ptr {
	if ptr.Sym == nil {
		return ptr
	}
	if ptr.Sym.IsConst() {
		return Ptr{Obj: ptr.Obj, Off: ptr.Off + int(int64(ptr.Sym.Val))}
	}
	if v, ok := p.conc[ptr.Sym.ID]; ok {
		return Ptr{Obj: ptr.Obj, Off: ptr.Off + int(int64(v))}
	}
	return ptr
}

func (p *Path) loadCell(ptr Ptr, k int) Value {
	ptr = p.resolve(ptr)
	o := p.obj(ptr.Obj)
	if ptr.Sym == nil {
		return o.get(ptr.Off + k)
	}
	// candidates whose cell does not exist are infeasible (bounds were checked)
	var cands []int
	for _, c := range ptr.Cands {
		if ptr.Off+c+k >= 0 && ptr.Off+c+k < o.N {
			cands = append(cands, c)
		}
	}
	if len(cands) == 0 {
		p.unsup("symbolic pointer without feasible target")
	}
	vals := make([]Value, len(cands))
	allTerm := true
	allSame := true
	for i, c := range cands {
		vals[i] = o.get(ptr.Off + c + k)
		if _, ok := vals[i].(*Term); !ok {
			allTerm = false
		}
		if i > 0 && !sameValue(vals[i], vals[0]) {
			allSame = false
		}
	}
	if allSame {
		return vals[0]
	}
	if !allTerm {
		cs := make([]uint64, len(cands))
		for i, c := range cands {
			cs[i] = uint64(int64(c))
		}
		p.concretize(ptr.Sym, cs)
		panic("unreachable")
	}
	ts := p.ts()
	res := vals[len(vals)-1].(*Term)
	for i := len(vals) - 2; i >= 0; i-- {
		res = ts.Ite(ts.Eq(ptr.Sym, ts.Const(uint64(int64(cands[i])), 64)), vals[i].(*Term), res)
	}
	return res
}

func sameValue(a, b Value) bool {
	switch x := a.(type) {
	case *Term:
		y, ok := b.(*Term)
		return ok && x == y
	case Ptr:
		y, ok := b.(Ptr)
		return ok && x.Obj == y.Obj && x.Off == y.Off && x.Sym == y.Sym
	case Str:
		y, ok := b.(Str)
		return ok && !x.IsObj && !y.IsObj && x.S == y.S
	case Iface:
		y, ok := b.(Iface)
		if !ok {
			return false
		}
		if x.T == nil || y.T == nil {
			return x.T == nil && y.T == nil
		}
		return types.Identical(x.T, y.T) && sameValue(x.V, y.V)
	case Slice:
		y, ok := b.(Slice)
		return ok && sameValue(x.P, y.P) && x.Len == y.Len && x.Cap == y.Cap
	case Closure:
		y, ok := b.(Closure)
		return ok && x.Fn == y.Fn && x.Bltn == y.Bltn && len(x.Binds) == 0 && len(y.Binds) == 0
	case MapRef:
		y, ok := b.(MapRef)
		return ok && x == y
	}
	return false
}

func (p *Path) storeCell(ptr Ptr, k int, v Value) {
	ptr = p.resolve(ptr)
	o := p.mut(ptr.Obj)
	if o.Global {
		p.run.noteGlobalWrite(p, o)
	}
	if ptr.Sym == nil {
		o.set(ptr.Off+k, v)
		return
	}
	vt, ok := v.(*Term)
	if !ok {
		cs := make([]uint64, len(ptr.Cands))
		for i, c := range ptr.Cands {
			cs[i] = uint64(int64(c))
		}
		p.concretize(ptr.Sym, cs)
	}
	ts := p.ts()
	for _, c := range ptr.Cands {
		if ptr.Off+c+k < 0 || ptr.Off+c+k >= o.N {
			continue
		}
		old := o.get(ptr.Off + c + k)
		ot, ok := old.(*Term)
		if !ok {
			cs := make([]uint64, len(ptr.Cands))
			for i, c := range ptr.Cands {
				cs[i] = uint64(int64(c))
			}
			p.concretize(ptr.Sym, cs)
		}
		o.set(ptr.Off+c+k, ts.Ite(ts.Eq(ptr.Sym, ts.Const(uint64(int64(c)), 64)), vt, ot))
	}
}

func (p *Path) nilCheck(ptr Ptr) {
	if ptr.Obj == 0 {
		p.raise("nil", "invalid memory address or nil pointer dereference", nil)
	}
}

func (p *Path) load(ptr Ptr, t types.Type) Value {
	p.nilCheck(ptr)
	if o := p.obj(ptr.Obj); o.NoInit && !p.lenient {
		if _, isBase := p.run.base[ptr.Obj]; isBase && o.Epoch == -1 {
			p.unsup("read of %s, a package-level variable whose package initialiser is not interpreted", o.Name)
		}
	}
	return p.run.unflatten(t, func(i int) Value { return p.loadCell(ptr, i) }, 0)
}

func (p *Path) store(ptr Ptr, v Value, t types.Type) {
	p.nilCheck(ptr)
	var cells []Value
	p.run.flatten(v, t, &cells)
	// first pass may request a fork before any side effect
	if ptr.Sym != nil {
		rp := p.resolve(ptr)
		if rp.Sym != nil {
			for _, c := range cells {
				if _, ok := c.(*Term); !ok {
					cs := make([]uint64, len(rp.Cands))
					for i, c := range rp.Cands {
						cs[i] = uint64(int64(c))
					}
					p.concretize(rp.Sym, cs)
				}
			}
		}
	}
	for i, c := range cells {
		p.storeCell(ptr, i, c)
	}
}

// addOffset returns ptr advanced by idx elements of stride cells, where
// idx ranges over [0,n).
func (p *Path) addOffset(ptr Ptr, idx *Term, stride int, n int) Ptr {
	if idx.IsConst() {
		ptr.Off += int(int64(idx.Val)) * stride
		return ptr
	}
	if v, ok := p.conc[idx.ID]; ok {
		ptr.Off += int(int64(v)) * stride
		return ptr
	}
	if n > 1<<16 {
		p.unsup("symbolic index over %d elements", n)
	}
	ts := p.ts()
	contrib := ts.Mul(idx, ts.Const(uint64(stride), 64))
	var cands []int
	if ptr.Sym == nil {
		cands = make([]int, n)
		for i := 0; i < n; i++ {
			cands[i] = i * stride
		}
		ptr.Sym = contrib
	} else {
		if len(ptr.Cands)*n > 1<<16 || (ptr.Cands == nil) {
			// too many targets to enumerate: keep the pointer as base + symbolic offset
			// without a candidate list. It can be compared and identified (vPtrKey),
			// but a load or store through it is unsupported.
			ptr.Sym = ts.Add(ptr.Sym, contrib)
			ptr.Cands = nil
			return ptr
		}
		for _, c := range ptr.Cands {
			for i := 0; i < n; i++ {
				cands = append(cands, c+i*stride)
			}
		}
		cands = sortedUnique(cands)
		ptr.Sym = ts.Add(ptr.Sym, contrib)
	}
	// candidates outside the object are infeasible (bounds were checked):
	// drop them so that loads never touch cells that do not exist
	if ptr.Obj != 0 {
		o := p.obj(ptr.Obj)
		kept := cands[:0:0]
		for _, c := range cands {
			if ptr.Off+c >= 0 && ptr.Off+c <= o.N {
				kept = append(kept, c)
			}
		}
		cands = kept
	}
	ptr.Cands = cands
	return ptr
}

// ---------------------------------------------------------------------
// execution

func (p *Path) pushFrame(fn *ssa.Function, args []Value, binds []Value, retDst int, kind frameKind) {
	if len(p.frames) > 400 {
		p.unsup("call depth exceeded in %s", fn)
	}
	fi := p.run.in.info(fn)
	f := &Frame{fn: fn, info: fi, env: make([]Value, fi.n), retDst: retDst, kind: kind}
	if len(args) != len(fn.Params) {
		p.unsup("arity mismatch calling %s: %d args for %d params", fn, len(args), len(fn.Params))
	}
	copy(f.env, args)
	copy(f.env[len(fn.Params):], binds)
	f.block = fn.Blocks[0]
	p.frames = append(p.frames, f)
	p.run.fnUsed[fn.String()] = true
}

func (p *Path) runLoop() {
	for p.outcome == nil {
		p.safeStep()
	}
}

func (p *Path) safeStep() {
	defer func() {
		if e := recover(); e != nil {
			switch x := e.(type) {
			case forkRequest:
				p.doFork(x)
			case unsupported:
				if p.lenient {
					// result of current instruction becomes opaque
					p.skipInstr(x.msg)
					return
				}
				p.end("unsupported", x.msg+" at "+p.where())
			case *goPanic:
				if p.lenient {
					p.skipInstr("panic during init: " + x.kind)
					return
				}
				p.startPanic(x)
			case pathEnded:
			default:
				if os.Getenv("VCHECK_DEBUG") != "" && !p.lenient {
					panic(e)
				}
				if p.lenient {
					p.skipInstr(fmt.Sprint(e))
					return
				}
				p.end("unsupported", fmt.Sprintf("engine error: %v at %s", e, p.where()))
			}
		}
	}()
	if p.pending != nil {
		gp := p.pending
		p.pending = nil
		panic(gp)
	}
	for p.outcome == nil {
		p.step()
	}
}

func (p *Path) skipInstr(msg string) {
	f := p.top()
	ins := f.block.Instrs[f.pc]
	if v, ok := ins.(ssa.Value); ok {
		p.set(v, Opaque{msg})
	}
	switch ins.(type) {
	case *ssa.If, *ssa.Jump, *ssa.Return, *ssa.Panic:
		p.end("unsupported", msg+" at "+p.where())
		return
	}
	f.pc++
}

func (p *Path) doFork(fr forkRequest) {
	r := p.run
	ts := p.ts()
	cands := fr.cands
	if cands == nil {
		// enumerate by solver
		var got []uint64
		extra := []*Term{}
		for len(got) <= r.maxEnum {
			probe := ts.Var("enum", fr.t.W)
			qq := p.sliceFor(append(append([]*Term{}, extra...), ts.Eq(probe, fr.t))...)
			res, m := r.solver.Check(qq, true)
			if res == Unsat {
				break
			}
			if res == Unknown || m == nil {
				p.end("unsupported", "cannot enumerate values at "+p.where())
				return
			}
			v := m[probe.ID]
			got = append(got, v)
			extra = append(extra, ts.BNot(ts.Eq(fr.t, ts.Const(v, fr.t.W))))
		}
		if len(got) > r.maxEnum {
			p.end("unsupported", fmt.Sprintf("more than %d feasible values at %s", r.maxEnum, p.where()))
			return
		}
		cands = got
	}
	var kids []*Path
	for _, c := range cands {
		eq := ts.Eq(fr.t, ts.Const(c, fr.t.W))
		ok, m := p.feasible(eq)
		if !ok {
			continue
		}
		k := p.clone()
		k.assume(eq)
		k.model = m
		k.conc[fr.t.ID] = c
		kids = append(kids, k)
	}
	r.forks += len(kids)
	for i := len(kids) - 1; i >= 0; i-- {
		r.push(kids[i])
	}
	p.end("forked", "")
}

func (p *Path) step() {
	f := p.top()
	ins := f.block.Instrs[f.pc]
	p.steps++
	p.run.steps++
	if p.run.steps&0xfffff == 0 {
		p.run.tick(p)
		if p.outcome != nil {
			return
		}
	}
	if p.steps > p.run.maxSteps {
		p.end("steplimit", fmt.Sprintf("step limit %d exceeded at %s", p.run.maxSteps, p.where()))
		return
	}
	if p.run.traceW != nil {
		fmt.Fprintf(p.run.traceW, "[%d] %s: %s\n", p.id, f.fn.Name(), ins)
	}
	switch ins := ins.(type) {
	case *ssa.DebugRef:
		f.pc++
	case *ssa.Alloc:
		elem := ins.Type().Underlying().(*types.Pointer).Elem()
		p.set(ins, p.allocType(elem, ins.Comment))
		f.pc++
	case *ssa.UnOp:
		p.set(ins, p.unop(ins))
		f.pc++
	case *ssa.BinOp:
		p.set(ins, p.binop(ins.Op, p.eval(ins.X), p.eval(ins.Y), ins.X.Type(), ins.Y.Type()))
		f.pc++
	case *ssa.Store:
		ptr, ok := p.eval(ins.Addr).(Ptr)
		if !ok {
			p.unsup("store through %T", p.eval(ins.Addr))
		}
		p.store(ptr, p.eval(ins.Val), ins.Val.Type())
		f.pc++
	case *ssa.FieldAddr:
		ptr, ok := p.eval(ins.X).(Ptr)
		if !ok {
			p.unsup("fieldaddr of %T", p.eval(ins.X))
		}
		p.nilCheck(ptr)
		st := ins.X.Type().Underlying().(*types.Pointer).Elem().Underlying().(*types.Struct)
		ptr.Off += p.run.in.fieldOffset(st, ins.Field)
		p.set(ins, ptr)
		f.pc++
	case *ssa.Field:
		a, ok := p.eval(ins.X).(*Agg)
		if !ok {
			p.unsup("field of %T", p.eval(ins.X))
		}
		p.set(ins, a.E[ins.Field])
		f.pc++
	case *ssa.IndexAddr:
		p.set(ins, p.indexAddr(ins))
		f.pc++
	case *ssa.Index:
		p.set(ins, p.index(ins))
		f.pc++
	case *ssa.Extract:
		a, ok := p.eval(ins.Tuple).(*Agg)
		if !ok {
			if o, isOp := p.eval(ins.Tuple).(Opaque); isOp {
				p.set(ins, o)
				f.pc++
				return
			}
			p.unsup("extract of %T", p.eval(ins.Tuple))
		}
		p.set(ins, a.E[ins.Index])
		f.pc++
	case *ssa.Phi:
		// evaluate all phis of the block simultaneously
		idx := -1
		for i, pr := range f.block.Preds {
			if pr == f.prev {
				idx = i
				break
			}
		}
		if idx < 0 {
			p.unsup("phi without predecessor")
		}
		var phis []*ssa.Phi
		var vals []Value
		for _, in2 := range f.block.Instrs[f.pc:] {
			ph, ok := in2.(*ssa.Phi)
			if !ok {
				break
			}
			phis = append(phis, ph)
			vals = append(vals, p.eval(ph.Edges[idx]))
		}
		for i, ph := range phis {
			p.set(ph, vals[i])
		}
		f.pc += len(phis)
	case *ssa.Convert:
		p.set(ins, p.convert(p.eval(ins.X), ins.X.Type(), ins.Type()))
		f.pc++
	case *ssa.ChangeType:
		p.set(ins, p.eval(ins.X))
		f.pc++
	case *ssa.MultiConvert:
		p.set(ins, p.convert(p.eval(ins.X), ins.X.Type(), ins.Type()))
		f.pc++
	case *ssa.ChangeInterface:
		p.set(ins, p.eval(ins.X))
		f.pc++
	case *ssa.MakeInterface:
		p.set(ins, Iface{T: ins.X.Type(), V: p.eval(ins.X)})
		f.pc++
	case *ssa.TypeAssert:
		p.set(ins, p.typeAssert(ins))
		f.pc++
	case *ssa.Slice:
		p.set(ins, p.sliceOp(ins))
		f.pc++
	case *ssa.SliceToArrayPointer:
		s := p.eval(ins.X).(Slice)
		p.set(ins, s.P)
		f.pc++
	case *ssa.MakeSlice:
		p.set(ins, p.makeSlice(ins))
		f.pc++
	case *ssa.MakeMap:
		o := p.newObj(0, nil, "map")
		o.IsMap = true
		p.set(ins, MapRef{Obj: o.ID})
		f.pc++
	case *ssa.MakeChan:
		o := p.newObj(0, nil, "chan")
		p.set(ins, ChanRef{Obj: o.ID})
		f.pc++
	case *ssa.MakeClosure:
		binds := make([]Value, len(ins.Bindings))
		for i, b := range ins.Bindings {
			binds[i] = p.eval(b)
		}
		p.set(ins, Closure{Fn: ins.Fn.(*ssa.Function), Binds: binds})
		f.pc++
	case *ssa.Lookup:
		p.set(ins, p.lookup(ins))
		f.pc++
	case *ssa.MapUpdate:
		p.mapUpdate(p.eval(ins.Map), p.eval(ins.Key), p.eval(ins.Value), ins.Key.Type())
		f.pc++
	case *ssa.Range:
		p.set(ins, p.rangeStart(ins))
		f.pc++
	case *ssa.Next:
		p.set(ins, p.rangeNext(ins))
		f.pc++
	case *ssa.Jump:
		p.jump(f, f.block.Succs[0])
	case *ssa.If:
		p.branch(f, ins)
	case *ssa.Return:
		var res Value
		switch len(ins.Results) {
		case 0:
		case 1:
			res = p.eval(ins.Results[0])
		default:
			a := &Agg{E: make([]Value, len(ins.Results))}
			for i, rv := range ins.Results {
				a.E[i] = p.eval(rv)
			}
			res = a
		}
		p.ret(res)
	case *ssa.Call:
		p.callInstr(ins, ins.Common(), f.info.idx[ins])
	case *ssa.Defer:
		p.deferInstr(ins)
		f.pc++
	case *ssa.RunDefers:
		if n := len(f.defers); n > 0 {
			d := f.defers[n-1]
			f.defers = f.defers[:n-1]
			p.invoke(d.fn, d.args, -1, fkDeferred, nil)
		} else {
			f.pc++
		}
	case *ssa.Panic:
		v := p.eval(ins.X)
		gp := &goPanic{kind: "explicit", val: v, site: p.where()}
		panic(gp)
	case *ssa.Go:
		p.unsup("go statement")
	case *ssa.Select:
		p.unsup("select statement")
	case *ssa.Send:
		p.unsup("channel send")
	default:
		p.unsup("instruction %T", ins)
	}
}

func (p *Path) jump(f *Frame, to *ssa.BasicBlock) {
	f.prev = f.block
	f.block = to
	f.pc = 0
}

func (p *Path) branch(f *Frame, ins *ssa.If) {
	c := p.term(p.eval(ins.Cond))
	tb, fb := f.block.Succs[0], f.block.Succs[1]
	if c.IsTrue() {
		p.jump(f, tb)
		return
	}
	if c.IsFalse() {
		p.jump(f, fb)
		return
	}
	if p.tryIfConvert(f, c) {
		return
	}
	ts := p.ts()
	nc := ts.BNot(c)
	okT, mT := p.feasible(c)
	okF, mF := p.feasible(nc)
	switch {
	case okT && okF:
		if f.forks == nil {
			f.forks = map[int]int{}
		}
		f.forks[f.block.Index]++
		if f.forks[f.block.Index] > p.unwind {
			p.end("unwind", fmt.Sprintf("unwinding bound %d exceeded at %s", p.unwind, p.where()))
			return
		}
		p.run.forks++
		k := p.clone()
		kf := k.top()
		k.assume(nc)
		k.model = mF
		k.jump(kf, fb)
		p.run.push(k)
		p.assume(c)
		p.model = mT
		p.jump(f, tb)
	case okT:
		p.assume(c)
		p.model = mT
		p.jump(f, tb)
	case okF:
		p.assume(nc)
		p.model = mF
		p.jump(f, fb)
	default:
		p.end("infeasible", "branch with both sides infeasible at "+p.where())
	}
}

func (p *Path) ret(res Value) {
	f := p.top()
	p.frames = p.frames[:len(p.frames)-1]
	if len(p.frames) == 0 {
		p.end("return", "")
		p.run.finalResult = res
		return
	}
	caller := p.top()
	switch f.kind {
	case fkNormal, fkInit:
		if f.retDst >= 0 {
			caller.env[f.retDst] = res
		}
		caller.pc++
	case fkDeferred:
		// caller re-executes RunDefers
	case fkDeferredPanic:
		p.continuePanic()
	}
}

// startPanic begins unwinding with the given panic.
func (p *Path) startPanic(gp *goPanic) {
	p.panicking = gp
	p.recovered = false
	p.continuePanic()
}

func (p *Path) continuePanic() {
	for {
		if len(p.frames) == 0 {
			p.end("panic", p.panicMsg())
			return
		}
		f := p.top()
		if n := len(f.defers); n > 0 {
			d := f.defers[n-1]
			f.defers = f.defers[:n-1]
			p.invoke(d.fn, d.args, -1, fkDeferredPanic, nil)
			return
		}
		if p.recovered {
			// the frame whose deferred call recovered returns normally
			p.recovered = false
			p.panicking = nil
			if f.fn.Recover != nil {
				f.prev = f.block
				f.block = f.fn.Recover
				f.pc = 0
				return
			}
			var res Value
			rs := f.fn.Signature.Results()
			switch rs.Len() {
			case 0:
			case 1:
				res = p.run.zeroVal(rs.At(0).Type())
			default:
				res = p.run.zeroVal(rs)
			}
			p.ret(res)
			return
		}
		p.frames = p.frames[:len(p.frames)-1]
	}
}

func (p *Path) panicMsg() string {
	gp := p.panicking
	if gp == nil {
		return "?"
	}
	s := gp.kind
	if i, ok := gp.val.(Iface); ok {
		switch v := i.V.(type) {
		case Str:
			if !v.IsObj {
				s += ": " + v.S
			}
		case Ptr:
			// error value: try errorString
			if i.T != nil {
				s += ": " + p.errorText(i)
			}
		}
	}
	return s + " @ " + gp.site
}

func (p *Path) errorText(i Iface) string {
	defer func() { recover() }()
	if i.T == nil {
		return "<nil>"
	}
	if ptr, ok := i.V.(Ptr); ok && strings.HasSuffix(i.T.String(), "errors.errorString") {
		if s, ok := p.obj(ptr.Obj).get(ptr.Off).(Str); ok && !s.IsObj {
			return s.S
		}
	}
	return i.T.String()
}

func (p *Path) deferInstr(ins *ssa.Defer) {
	f := p.top()
	c := ins.Common()
	var d deferred
	if c.IsInvoke() {
		recv := p.eval(c.Value)
		ifc, ok := recv.(Iface)
		if !ok || ifc.T == nil {
			p.raise("nil", "nil interface in defer", nil)
		}
		fn := p.run.in.prog.LookupMethod(ifc.T, c.Method.Pkg(), c.Method.Name())
		d.fn = Closure{Fn: fn}
		d.args = append(d.args, ifc.V)
	} else {
		d.fn = p.eval(c.Value)
	}
	for _, a := range c.Args {
		d.args = append(d.args, p.eval(a))
	}
	f.defers = append(f.defers, d)
}

func (p *Path) callInstr(ins ssa.Instruction, c *ssa.CallCommon, dst int) {
	var args []Value
	var fnv Value
	if c.IsInvoke() {
		recv := p.eval(c.Value)
		ifc, ok := recv.(Iface)
		if !ok {
			p.unsup("invoke on %T", recv)
		}
		if ifc.T == nil {
			p.raise("nil", "invalid memory address or nil pointer dereference (nil interface)", nil)
		}
		fn := p.run.in.prog.LookupMethod(ifc.T, c.Method.Pkg(), c.Method.Name())
		if fn == nil {
			p.unsup("no method %s on %s", c.Method.Name(), ifc.T)
		}
		fnv = Closure{Fn: fn}
		args = append(args, ifc.V)
	} else {
		fnv = p.eval(c.Value)
	}
	for _, a := range c.Args {
		args = append(args, p.eval(a))
	}
	p.invoke(fnv, args, dst, fkNormal, c)
}

// invoke calls a function value. For fkNormal the current frame's pc is
// advanced when the call returns (or immediately for intrinsics).
func (p *Path) invoke(fnv Value, args []Value, dst int, kind frameKind, c *ssa.CallCommon) {
	cl, ok := fnv.(Closure)
	if !ok {
		p.unsup("call of %T", fnv)
	}
	finish := func(res Value) {
		// immediate result
		f := p.top()
		switch kind {
		case fkNormal:
			if dst >= 0 {
				f.env[dst] = res
			}
			f.pc++
		case fkDeferred:
		case fkDeferredPanic:
			p.continuePanic()
		}
	}
	if cl.Bltn != "" {
		finish(p.builtin(cl.Bltn, args, c))
		return
	}
	if cl.Fn == nil {
		p.raise("nil", "call of nil function", nil)
	}
	fn := cl.Fn
	name := fn.String()
	// harness substitutions
	if len(p.subst) > 0 {
		if rep, ok := p.subst[name]; ok && !p.inSubst(rep.Fn) {
			fn = rep.Fn
			cl = rep
			name = fn.String()
		}
	}
	if h, ok := p.run.intrinsic(fn, name); ok {
		res, handled := h(p, fn, args)
		if tc, ok := res.(tailCall); ok {
			cl = tc.cl
			fn = cl.Fn
			args = tc.args
			name = fn.String()
		} else if handled {
			if p.outcome != nil {
				return
			}
			finish(res)
			return
		}
	}
	if p.lenient && fn.Pkg != nil && !initWhitelisted(fn.Pkg.Pkg.Path()) {
		res, _ := stubZero(p, fn, args)
		finish(res)
		return
	}
	if fn.Blocks == nil {
		p.unsup("call of body-less function %s", name)
	}
	p.pushFrame(fn, args, cl.Binds, dst, kind)
}

// inSubst reports whether fn is already on the stack (a substitute may call
// the original).
func (p *Path) inSubst(fn *ssa.Function) bool {
	for _, f := range p.frames {
		if f.fn == fn {
			return true
		}
	}
	return false
}
