package main

// Hash-consed bit-vector / boolean terms with eager simplification.
// Widths are 1..64 for bit-vectors; W==0 means Bool.

import (
	"fmt"
	"math/bits"
	"sort"
	"strings"
)

type Op uint8

const (
	OpConst Op = iota // BV constant (Val) or Bool constant (Val 0/1, W==0)
	OpVar
	OpAdd
	OpSub
	OpMul
	OpUDiv
	OpURem
	OpSDiv
	OpSRem
	OpAnd
	OpOr
	OpXor
	OpNot
	OpNeg
	OpShl
	OpLShr
	OpAShr
	OpExtract // Hi, Lo
	OpZExt    // to W
	OpSExt    // to W
	OpConcat
	OpIte
	OpEq
	OpUlt
	OpUle
	OpSlt
	OpSle
	OpBAnd
	OpBOr
	OpBNot
	OpUF // uninterpreted function application: Name, args, result width W
)

var opNames = map[Op]string{
	OpAdd: "bvadd", OpSub: "bvsub", OpMul: "bvmul", OpUDiv: "bvudiv", OpURem: "bvurem",
	OpSDiv: "bvsdiv", OpSRem: "bvsrem", OpAnd: "bvand", OpOr: "bvor", OpXor: "bvxor",
	OpNot: "bvnot", OpNeg: "bvneg", OpShl: "bvshl", OpLShr: "bvlshr", OpAShr: "bvashr",
	OpConcat: "concat", OpIte: "ite", OpEq: "=", OpUlt: "bvult", OpUle: "bvule",
	OpSlt: "bvslt", OpSle: "bvsle", OpBAnd: "and", OpBOr: "or", OpBNot: "not",
}

type Term struct {
	Op     Op
	W      int // 0 = Bool
	Args   []*Term
	Val    uint64
	Name   string
	Hi, Lo int
	ID     int
	hasMul bool
}

func (t *Term) IsConst() bool { return t.Op == OpConst }
func (t *Term) IsBool() bool  { return t.W == 0 }
func (t *Term) IsTrue() bool  { return t.Op == OpConst && t.W == 0 && t.Val == 1 }
func (t *Term) IsFalse() bool { return t.Op == OpConst && t.W == 0 && t.Val == 0 }

func mask(w int) uint64 {
	if w >= 64 {
		return ^uint64(0)
	}
	return (uint64(1) << uint(w)) - 1
}

func sext(v uint64, w int) int64 {
	if w >= 64 {
		return int64(v)
	}
	sh := uint(64 - w)
	return int64(v<<sh) >> sh
}

// TermStore is a hash-consing table. Not safe for concurrent use.
type TermStore struct {
	tab    map[string]*Term
	nextID int
	vars   []*Term
	ufs    map[string]*Term // one sample application per UF name (for declaration)
	nvar   int
	tt, ff *Term
}

func NewTermStore() *TermStore {
	ts := &TermStore{tab: map[string]*Term{}, ufs: map[string]*Term{}}
	ts.tt = ts.mk(&Term{Op: OpConst, W: 0, Val: 1})
	ts.ff = ts.mk(&Term{Op: OpConst, W: 0, Val: 0})
	return ts
}

func (ts *TermStore) key(t *Term) string {
	var sb strings.Builder
	fmt.Fprintf(&sb, "%d:%d:%d:%d:%d:%s", t.Op, t.W, t.Val, t.Hi, t.Lo, t.Name)
	for _, a := range t.Args {
		fmt.Fprintf(&sb, ",%d", a.ID)
	}
	return sb.String()
}

func (ts *TermStore) mk(t *Term) *Term {
	k := ts.key(t)
	if e, ok := ts.tab[k]; ok {
		return e
	}
	ts.nextID++
	t.ID = ts.nextID
	if t.Op == OpMul || t.Op == OpUDiv || t.Op == OpURem || t.Op == OpSDiv || t.Op == OpSRem {
		nc := 0
		for _, a := range t.Args {
			if !a.IsConst() {
				nc++
			}
		}
		if nc >= 2 || (t.Op != OpMul && !t.Args[1].IsConst() && t.W > 16) {
			t.hasMul = true
		}
	}
	for _, a := range t.Args {
		if a.hasMul {
			t.hasMul = true
		}
	}
	ts.tab[k] = t
	return t
}

func (ts *TermStore) True() *Term  { return ts.tt }
func (ts *TermStore) False() *Term { return ts.ff }
func (ts *TermStore) Bool(b bool) *Term {
	if b {
		return ts.tt
	}
	return ts.ff
}

func (ts *TermStore) Const(v uint64, w int) *Term {
	if w == 0 {
		return ts.Bool(v != 0)
	}
	return ts.mk(&Term{Op: OpConst, W: w, Val: v & mask(w)})
}

func (ts *TermStore) Var(name string, w int) *Term {
	ts.nvar++
	t := ts.mk(&Term{Op: OpVar, W: w, Name: fmt.Sprintf("%s!%d", name, ts.nvar)})
	ts.vars = append(ts.vars, t)
	return t
}

func (ts *TermStore) UF(name string, w int, args ...*Term) *Term {
	t := ts.mk(&Term{Op: OpUF, W: w, Name: name, Args: args})
	if _, ok := ts.ufs[name]; !ok {
		ts.ufs[name] = t
	}
	return t
}

func (ts *TermStore) bin(op Op, w int, a, b *Term) *Term {
	return ts.mk(&Term{Op: op, W: w, Args: []*Term{a, b}})
}

func commut(a, b *Term) (*Term, *Term) {
	// constants to the right, otherwise by ID
	if a.IsConst() && !b.IsConst() {
		return b, a
	}
	if !a.IsConst() && !b.IsConst() && a.ID > b.ID {
		return b, a
	}
	return a, b
}

func (ts *TermStore) Add(a, b *Term) *Term {
	w := a.W
	if a.IsConst() && b.IsConst() {
		return ts.Const(a.Val+b.Val, w)
	}
	a, b = commut(a, b)
	if b.IsConst() {
		if b.Val == 0 {
			return a
		}
		// (x + c1) + c2
		if a.Op == OpAdd && a.Args[1].IsConst() {
			return ts.Add(a.Args[0], ts.Const(a.Args[1].Val+b.Val, w))
		}
		if a.Op == OpSub && a.Args[1].IsConst() {
			return ts.Add(a.Args[0], ts.Const(b.Val-a.Args[1].Val, w))
		}
	}
	return ts.bin(OpAdd, w, a, b)
}

func (ts *TermStore) Sub(a, b *Term) *Term {
	w := a.W
	if a.IsConst() && b.IsConst() {
		return ts.Const(a.Val-b.Val, w)
	}
	if a == b {
		return ts.Const(0, w)
	}
	if b.IsConst() {
		return ts.Add(a, ts.Const(-b.Val, w))
	}
	// (x + y) - x = y
	if a.Op == OpAdd {
		if a.Args[0] == b {
			return a.Args[1]
		}
		if a.Args[1] == b {
			return a.Args[0]
		}
	}
	return ts.bin(OpSub, w, a, b)
}

func (ts *TermStore) Mul(a, b *Term) *Term {
	w := a.W
	if a.IsConst() && b.IsConst() {
		return ts.Const(a.Val*b.Val, w)
	}
	a, b = commut(a, b)
	if b.IsConst() {
		if b.Val == 0 {
			return b
		}
		if b.Val == 1 {
			return a
		}
		if bits.OnesCount64(b.Val) == 1 {
			return ts.Shl(a, ts.Const(uint64(bits.TrailingZeros64(b.Val)), w))
		}
	}
	return ts.bin(OpMul, w, a, b)
}

func (ts *TermStore) UDiv(a, b *Term) *Term {
	w := a.W
	if a.IsConst() && b.IsConst() && b.Val != 0 {
		return ts.Const(a.Val/b.Val, w)
	}
	if b.IsConst() && b.Val == 1 {
		return a
	}
	if b.IsConst() && bits.OnesCount64(b.Val) == 1 {
		return ts.LShr(a, ts.Const(uint64(bits.TrailingZeros64(b.Val)), w))
	}
	return ts.bin(OpUDiv, w, a, b)
}

func (ts *TermStore) URem(a, b *Term) *Term {
	w := a.W
	if a.IsConst() && b.IsConst() && b.Val != 0 {
		return ts.Const(a.Val%b.Val, w)
	}
	if b.IsConst() && bits.OnesCount64(b.Val) == 1 {
		return ts.And(a, ts.Const(b.Val-1, w))
	}
	return ts.bin(OpURem, w, a, b)
}

func (ts *TermStore) SDiv(a, b *Term) *Term {
	w := a.W
	if a.IsConst() && b.IsConst() && b.Val != 0 {
		x, y := sext(a.Val, w), sext(b.Val, w)
		if y == -1 {
			return ts.Const(uint64(-x), w)
		}
		return ts.Const(uint64(x/y), w)
	}
	if b.IsConst() && b.Val == 1 {
		return a
	}
	return ts.bin(OpSDiv, w, a, b)
}

func (ts *TermStore) SRem(a, b *Term) *Term {
	w := a.W
	if a.IsConst() && b.IsConst() && b.Val != 0 {
		x, y := sext(a.Val, w), sext(b.Val, w)
		if y == -1 {
			return ts.Const(0, w)
		}
		return ts.Const(uint64(x%y), w)
	}
	return ts.bin(OpSRem, w, a, b)
}

func (ts *TermStore) And(a, b *Term) *Term {
	w := a.W
	if a.IsConst() && b.IsConst() {
		return ts.Const(a.Val&b.Val, w)
	}
	if a == b {
		return a
	}
	a, b = commut(a, b)
	if b.IsConst() {
		if b.Val == 0 {
			return b
		}
		if b.Val == mask(w) {
			return a
		}
		if a.Op == OpAnd && a.Args[1].IsConst() {
			return ts.And(a.Args[0], ts.Const(a.Args[1].Val&b.Val, w))
		}
		// zext(x) & m where m covers all of x
		if a.Op == OpZExt && b.Val&mask(a.Args[0].W) == mask(a.Args[0].W) {
			return a
		}
		// low-bit mask -> extract+zext (helps the solver and later folding)
		if b.Val&(b.Val+1) == 0 {
			k := bits.Len64(b.Val)
			if k < w {
				return ts.ZExt(ts.Extract(a, k-1, 0), w)
			}
		}
	}
	return ts.bin(OpAnd, w, a, b)
}

func (ts *TermStore) Or(a, b *Term) *Term {
	w := a.W
	if a.IsConst() && b.IsConst() {
		return ts.Const(a.Val|b.Val, w)
	}
	if a == b {
		return a
	}
	a, b = commut(a, b)
	if b.IsConst() {
		if b.Val == 0 {
			return a
		}
		if b.Val == mask(w) {
			return b
		}
	}
	return ts.bin(OpOr, w, a, b)
}

func (ts *TermStore) Xor(a, b *Term) *Term {
	w := a.W
	if a.IsConst() && b.IsConst() {
		return ts.Const(a.Val^b.Val, w)
	}
	if a == b {
		return ts.Const(0, w)
	}
	a, b = commut(a, b)
	if b.IsConst() && b.Val == 0 {
		return a
	}
	if b.IsConst() && b.Val == mask(w) {
		return ts.Not(a)
	}
	return ts.bin(OpXor, w, a, b)
}

func (ts *TermStore) Not(a *Term) *Term {
	if a.IsConst() {
		return ts.Const(^a.Val, a.W)
	}
	if a.Op == OpNot {
		return a.Args[0]
	}
	return ts.mk(&Term{Op: OpNot, W: a.W, Args: []*Term{a}})
}

func (ts *TermStore) Neg(a *Term) *Term {
	if a.IsConst() {
		return ts.Const(-a.Val, a.W)
	}
	return ts.mk(&Term{Op: OpNeg, W: a.W, Args: []*Term{a}})
}

// Shl/LShr/AShr take a shift amount of the same width as a, with SMT
// semantics (shift >= width gives 0 / sign fill), which coincides with Go's.
func (ts *TermStore) Shl(a, s *Term) *Term {
	w := a.W
	if s.IsConst() {
		if s.Val == 0 {
			return a
		}
		if s.Val >= uint64(w) {
			return ts.Const(0, w)
		}
		if a.IsConst() {
			return ts.Const(a.Val<<s.Val, w)
		}
		// concat(extract(a, w-1-s, 0), 0^s)
		k := int(s.Val)
		return ts.Concat(ts.Extract(a, w-1-k, 0), ts.Const(0, k))
	}
	if a.IsConst() && a.Val == 0 {
		return a
	}
	return ts.bin(OpShl, w, a, s)
}

func (ts *TermStore) LShr(a, s *Term) *Term {
	w := a.W
	if s.IsConst() {
		if s.Val == 0 {
			return a
		}
		if s.Val >= uint64(w) {
			return ts.Const(0, w)
		}
		if a.IsConst() {
			return ts.Const(a.Val>>s.Val, w)
		}
		k := int(s.Val)
		return ts.ZExt(ts.Extract(a, w-1, k), w)
	}
	if a.IsConst() && a.Val == 0 {
		return a
	}
	return ts.bin(OpLShr, w, a, s)
}

func (ts *TermStore) AShr(a, s *Term) *Term {
	w := a.W
	if s.IsConst() {
		if s.Val == 0 {
			return a
		}
		if a.IsConst() {
			sh := s.Val
			if sh >= uint64(w) {
				sh = uint64(w - 1)
			}
			return ts.Const(uint64(sext(a.Val, w)>>sh), w)
		}
		if s.Val >= uint64(w) {
			s = ts.Const(uint64(w-1), w)
		}
		k := int(s.Val)
		return ts.SExt(ts.Extract(a, w-1, k), w)
	}
	return ts.bin(OpAShr, w, a, s)
}

func (ts *TermStore) Extract(a *Term, hi, lo int) *Term {
	w := hi - lo + 1
	if lo == 0 && hi == a.W-1 {
		return a
	}
	if a.IsConst() {
		return ts.Const(a.Val>>uint(lo), w)
	}
	switch a.Op {
	case OpExtract:
		return ts.Extract(a.Args[0], a.Lo+hi, a.Lo+lo)
	case OpZExt:
		iw := a.Args[0].W
		if hi < iw {
			return ts.Extract(a.Args[0], hi, lo)
		}
		if lo >= iw {
			return ts.Const(0, w)
		}
		return ts.ZExt(ts.Extract(a.Args[0], iw-1, lo), w)
	case OpSExt:
		iw := a.Args[0].W
		if hi < iw {
			return ts.Extract(a.Args[0], hi, lo)
		}
	case OpConcat:
		lw := a.Args[1].W
		if hi < lw {
			return ts.Extract(a.Args[1], hi, lo)
		}
		if lo >= lw {
			return ts.Extract(a.Args[0], hi-lw, lo-lw)
		}
		return ts.Concat(ts.Extract(a.Args[0], hi-lw, 0), ts.Extract(a.Args[1], lw-1, lo))
	case OpIte:
		if a.Args[1].IsConst() && a.Args[2].IsConst() {
			return ts.Ite(a.Args[0], ts.Extract(a.Args[1], hi, lo), ts.Extract(a.Args[2], hi, lo))
		}
	case OpAnd, OpOr, OpXor:
		if lo == 0 || a.Args[1].IsConst() {
			x := ts.Extract(a.Args[0], hi, lo)
			y := ts.Extract(a.Args[1], hi, lo)
			switch a.Op {
			case OpAnd:
				return ts.And(x, y)
			case OpOr:
				return ts.Or(x, y)
			default:
				return ts.Xor(x, y)
			}
		}
	case OpAdd, OpSub, OpMul:
		if lo == 0 {
			x := ts.Extract(a.Args[0], hi, 0)
			y := ts.Extract(a.Args[1], hi, 0)
			switch a.Op {
			case OpAdd:
				return ts.Add(x, y)
			case OpSub:
				return ts.Sub(x, y)
			default:
				return ts.Mul(x, y)
			}
		}
	}
	return ts.mk(&Term{Op: OpExtract, W: w, Args: []*Term{a}, Hi: hi, Lo: lo})
}

func (ts *TermStore) ZExt(a *Term, w int) *Term {
	if a.W == w {
		return a
	}
	if a.W > w {
		return ts.Extract(a, w-1, 0)
	}
	if a.IsConst() {
		return ts.Const(a.Val, w)
	}
	if a.Op == OpZExt {
		return ts.ZExt(a.Args[0], w)
	}
	if a.Op == OpIte && a.Args[1].IsConst() && a.Args[2].IsConst() {
		return ts.Ite(a.Args[0], ts.ZExt(a.Args[1], w), ts.ZExt(a.Args[2], w))
	}
	return ts.mk(&Term{Op: OpZExt, W: w, Args: []*Term{a}})
}

func (ts *TermStore) SExt(a *Term, w int) *Term {
	if a.W == w {
		return a
	}
	if a.W > w {
		return ts.Extract(a, w-1, 0)
	}
	if a.IsConst() {
		return ts.Const(uint64(sext(a.Val, a.W)), w)
	}
	if a.Op == OpZExt {
		return ts.ZExt(a.Args[0], w)
	}
	if a.Op == OpIte && a.Args[1].IsConst() && a.Args[2].IsConst() {
		return ts.Ite(a.Args[0], ts.SExt(a.Args[1], w), ts.SExt(a.Args[2], w))
	}
	return ts.mk(&Term{Op: OpSExt, W: w, Args: []*Term{a}})
}

func (ts *TermStore) Concat(hi, lo *Term) *Term {
	w := hi.W + lo.W
	if hi.IsConst() && lo.IsConst() {
		return ts.Const(hi.Val<<uint(lo.W)|lo.Val, w)
	}
	if hi.IsConst() && hi.Val == 0 {
		return ts.ZExt(lo, w)
	}
	return ts.mk(&Term{Op: OpConcat, W: w, Args: []*Term{hi, lo}})
}

func (ts *TermStore) Ite(c, a, b *Term) *Term {
	if c.IsTrue() {
		return a
	}
	if c.IsFalse() {
		return b
	}
	if a == b {
		return a
	}
	if a.W == 0 {
		// boolean ite
		if a.IsTrue() && b.IsFalse() {
			return c
		}
		if a.IsFalse() && b.IsTrue() {
			return ts.BNot(c)
		}
		if a.IsTrue() {
			return ts.BOr(c, b)
		}
		if a.IsFalse() {
			return ts.BAnd(ts.BNot(c), b)
		}
		if b.IsTrue() {
			return ts.BOr(ts.BNot(c), a)
		}
		if b.IsFalse() {
			return ts.BAnd(c, a)
		}
	}
	if c.Op == OpBNot {
		return ts.Ite(c.Args[0], b, a)
	}
	// ite(c, x, ite(c, y, z)) = ite(c, x, z)
	if b.Op == OpIte && b.Args[0] == c {
		return ts.Ite(c, a, b.Args[2])
	}
	if a.Op == OpIte && a.Args[0] == c {
		return ts.Ite(c, a.Args[1], b)
	}
	return ts.mk(&Term{Op: OpIte, W: a.W, Args: []*Term{c, a, b}})
}

func (ts *TermStore) Eq(a, b *Term) *Term {
	if a == b {
		return ts.tt
	}
	if a.W != b.W {
		panic(fmt.Sprintf("Eq width mismatch %d vs %d", a.W, b.W))
	}
	if a.IsConst() && b.IsConst() {
		return ts.Bool(a.Val == b.Val)
	}
	a, b = commut(a, b)
	if a.W == 0 {
		if b.IsTrue() {
			return a
		}
		if b.IsFalse() {
			return ts.BNot(a)
		}
	}
	if b.IsConst() {
		switch a.Op {
		case OpIte:
			// push comparison into ite with constant arms
			x, y := a.Args[1], a.Args[2]
			if x.IsConst() || y.IsConst() || (x.Op == OpIte && y.Op == OpIte) {
				return ts.Ite(a.Args[0], ts.Eq(x, b), ts.Eq(y, b))
			}
		case OpZExt:
			iw := a.Args[0].W
			if b.Val > mask(iw) {
				return ts.ff
			}
			return ts.Eq(a.Args[0], ts.Const(b.Val, iw))
		case OpAdd:
			if a.Args[1].IsConst() {
				return ts.Eq(a.Args[0], ts.Const(b.Val-a.Args[1].Val, a.W))
			}
		case OpXor:
			if a.Args[1].IsConst() {
				return ts.Eq(a.Args[0], ts.Const(b.Val^a.Args[1].Val, a.W))
			}
		}
	}
	return ts.bin(OpEq, 0, a, b)
}

func (ts *TermStore) Ult(a, b *Term) *Term {
	if a.IsConst() && b.IsConst() {
		return ts.Bool(a.Val < b.Val)
	}
	if a == b {
		return ts.ff
	}
	if b.IsConst() && b.Val == 0 {
		return ts.ff
	}
	if a.IsConst() && a.Val == mask(a.W) {
		return ts.ff
	}
	if b.IsConst() && a.Op == OpZExt && b.Val > mask(a.Args[0].W) {
		return ts.tt
	}
	if b.IsConst() && a.Op == OpIte && a.Args[1].IsConst() && a.Args[2].IsConst() {
		return ts.Ite(a.Args[0], ts.Ult(a.Args[1], b), ts.Ult(a.Args[2], b))
	}
	if a.Op == OpZExt && b.Op == OpZExt && a.Args[0].W == b.Args[0].W {
		return ts.Ult(a.Args[0], b.Args[0])
	}
	if a.Op == OpZExt && b.IsConst() {
		return ts.Ult(a.Args[0], ts.Const(b.Val, a.Args[0].W))
	}
	return ts.bin(OpUlt, 0, a, b)
}

func (ts *TermStore) Ule(a, b *Term) *Term {
	if a.IsConst() && b.IsConst() {
		return ts.Bool(a.Val <= b.Val)
	}
	if a == b {
		return ts.tt
	}
	if a.IsConst() && a.Val == 0 {
		return ts.tt
	}
	if b.IsConst() && b.Val == mask(b.W) {
		return ts.tt
	}
	return ts.BNot(ts.Ult(b, a))
}

func (ts *TermStore) Slt(a, b *Term) *Term {
	if a.IsConst() && b.IsConst() {
		return ts.Bool(sext(a.Val, a.W) < sext(b.Val, b.W))
	}
	if a == b {
		return ts.ff
	}
	// both zero-extended (non-negative): unsigned compare
	if isNonNeg(a) && isNonNeg(b) {
		return ts.Ult(a, b)
	}
	if b.IsConst() && a.Op == OpIte && a.Args[1].IsConst() && a.Args[2].IsConst() {
		return ts.Ite(a.Args[0], ts.Slt(a.Args[1], b), ts.Slt(a.Args[2], b))
	}
	return ts.bin(OpSlt, 0, a, b)
}

func isNonNeg(a *Term) bool {
	if a.IsConst() {
		return sext(a.Val, a.W) >= 0
	}
	if a.Op == OpZExt && a.Args[0].W < a.W {
		return true
	}
	return false
}

func (ts *TermStore) Sle(a, b *Term) *Term {
	if a.IsConst() && b.IsConst() {
		return ts.Bool(sext(a.Val, a.W) <= sext(b.Val, b.W))
	}
	if a == b {
		return ts.tt
	}
	return ts.BNot(ts.Slt(b, a))
}

func (ts *TermStore) BNot(a *Term) *Term {
	if a.IsConst() {
		return ts.Bool(a.Val == 0)
	}
	if a.Op == OpBNot {
		return a.Args[0]
	}
	return ts.mk(&Term{Op: OpBNot, W: 0, Args: []*Term{a}})
}

func (ts *TermStore) BAnd(a, b *Term) *Term {
	if a.IsFalse() || b.IsFalse() {
		return ts.ff
	}
	if a.IsTrue() {
		return b
	}
	if b.IsTrue() {
		return a
	}
	if a == b {
		return a
	}
	if (a.Op == OpBNot && a.Args[0] == b) || (b.Op == OpBNot && b.Args[0] == a) {
		return ts.ff
	}
	if a.ID > b.ID {
		a, b = b, a
	}
	return ts.bin(OpBAnd, 0, a, b)
}

func (ts *TermStore) BOr(a, b *Term) *Term {
	if a.IsTrue() || b.IsTrue() {
		return ts.tt
	}
	if a.IsFalse() {
		return b
	}
	if b.IsFalse() {
		return a
	}
	if a == b {
		return a
	}
	if (a.Op == OpBNot && a.Args[0] == b) || (b.Op == OpBNot && b.Args[0] == a) {
		return ts.tt
	}
	if a.ID > b.ID {
		a, b = b, a
	}
	return ts.bin(OpBOr, 0, a, b)
}

func (ts *TermStore) BAndN(xs ...*Term) *Term {
	r := ts.tt
	for _, x := range xs {
		r = ts.BAnd(r, x)
	}
	return r
}

// ---------------------------------------------------------------------
// Evaluation under an assignment (variables by term ID).

type Model map[int]uint64

func (ts *TermStore) Eval(t *Term, m Model, ufEval func(name string, args []uint64, w int) uint64) uint64 {
	memo := map[int]uint64{}
	var ev func(t *Term) uint64
	ev = func(t *Term) uint64 {
		if t.Op == OpConst {
			return t.Val
		}
		if v, ok := memo[t.ID]; ok {
			return v
		}
		var r uint64
		a := func(i int) uint64 { return ev(t.Args[i]) }
		w := t.W
		switch t.Op {
		case OpVar:
			r = m[t.ID]
		case OpAdd:
			r = a(0) + a(1)
		case OpSub:
			r = a(0) - a(1)
		case OpMul:
			r = a(0) * a(1)
		case OpUDiv:
			if d := a(1); d == 0 {
				r = mask(w)
			} else {
				r = a(0) / d
			}
		case OpURem:
			if d := a(1); d == 0 {
				r = a(0)
			} else {
				r = a(0) % d
			}
		case OpSDiv:
			x, y := sext(a(0), w), sext(a(1), w)
			if y == 0 {
				if x < 0 {
					r = 1
				} else {
					r = mask(w)
				}
			} else if y == -1 {
				r = uint64(-x)
			} else {
				r = uint64(x / y)
			}
		case OpSRem:
			x, y := sext(a(0), w), sext(a(1), w)
			if y == 0 {
				r = uint64(x)
			} else if y == -1 {
				r = 0
			} else {
				r = uint64(x % y)
			}
		case OpAnd:
			r = a(0) & a(1)
		case OpOr:
			r = a(0) | a(1)
		case OpXor:
			r = a(0) ^ a(1)
		case OpNot:
			r = ^a(0)
		case OpNeg:
			r = -a(0)
		case OpShl:
			if s := a(1); s >= uint64(w) {
				r = 0
			} else {
				r = a(0) << s
			}
		case OpLShr:
			if s := a(1); s >= uint64(w) {
				r = 0
			} else {
				r = a(0) >> s
			}
		case OpAShr:
			s := a(1)
			if s >= uint64(w) {
				s = uint64(w - 1)
			}
			r = uint64(sext(a(0), w) >> s)
		case OpExtract:
			r = a(0) >> uint(t.Lo)
		case OpZExt:
			r = a(0)
		case OpSExt:
			r = uint64(sext(a(0), t.Args[0].W))
		case OpConcat:
			r = a(0)<<uint(t.Args[1].W) | a(1)
		case OpIte:
			if a(0) != 0 {
				r = a(1)
			} else {
				r = a(2)
			}
		case OpEq:
			r = b2u(a(0) == a(1))
		case OpUlt:
			r = b2u(a(0) < a(1))
		case OpUle:
			r = b2u(a(0) <= a(1))
		case OpSlt:
			r = b2u(sext(a(0), t.Args[0].W) < sext(a(1), t.Args[0].W))
		case OpSle:
			r = b2u(sext(a(0), t.Args[0].W) <= sext(a(1), t.Args[0].W))
		case OpBAnd:
			r = b2u(a(0) != 0 && a(1) != 0)
		case OpBOr:
			r = b2u(a(0) != 0 || a(1) != 0)
		case OpBNot:
			r = b2u(a(0) == 0)
		case OpUF:
			args := make([]uint64, len(t.Args))
			for i := range t.Args {
				args[i] = a(i)
			}
			if ufEval != nil {
				r = ufEval(t.Name, args, w)
			}
		default:
			panic("eval: unknown op")
		}
		if w > 0 {
			r &= mask(w)
		}
		memo[t.ID] = r
		return r
	}
	return ev(t)
}

func b2u(b bool) uint64 {
	if b {
		return 1
	}
	return 0
}

// ---------------------------------------------------------------------
// SMT-LIB2 printing.

func sortStr(w int) string {
	if w == 0 {
		return "Bool"
	}
	return fmt.Sprintf("(_ BitVec %d)", w)
}

func constStr(t *Term) string {
	if t.W == 0 {
		if t.Val != 0 {
			return "true"
		}
		return "false"
	}
	if t.W%4 == 0 {
		return fmt.Sprintf("#x%0*x", t.W/4, t.Val)
	}
	return fmt.Sprintf("#b%0*b", t.W, t.Val)
}

func smtName(s string) string {
	return "|" + strings.NewReplacer("|", "_", "\\", "_").Replace(s) + "|"
}

// Script builds a self-contained script asserting all of the given
// terms (no check-sat). Shared sub-terms are defined once.
func (ts *TermStore) Script(asserts []*Term) (script string, vars []*Term) {
	var sb strings.Builder
	seen := map[int]bool{}
	var order []*Term
	var visit func(t *Term)
	visit = func(t *Term) {
		if seen[t.ID] {
			return
		}
		seen[t.ID] = true
		for _, a := range t.Args {
			visit(a)
		}
		order = append(order, t)
	}
	for _, a := range asserts {
		visit(a)
	}
	ufDecl := map[string]bool{}
	ref := func(t *Term) string {
		switch t.Op {
		case OpConst:
			return constStr(t)
		case OpVar:
			return smtName(t.Name)
		}
		return fmt.Sprintf("t%d", t.ID)
	}
	for _, t := range order {
		switch t.Op {
		case OpConst:
			continue
		case OpVar:
			fmt.Fprintf(&sb, "(declare-fun %s () %s)\n", smtName(t.Name), sortStr(t.W))
			vars = append(vars, t)
			continue
		case OpUF:
			if !ufDecl[t.Name] {
				ufDecl[t.Name] = true
				fmt.Fprintf(&sb, "(declare-fun %s (", smtName(t.Name))
				for _, a := range t.Args {
					sb.WriteString(sortStr(a.W) + " ")
				}
				fmt.Fprintf(&sb, ") %s)\n", sortStr(t.W))
			}
		}
		var body string
		switch t.Op {
		case OpExtract:
			body = fmt.Sprintf("((_ extract %d %d) %s)", t.Hi, t.Lo, ref(t.Args[0]))
		case OpZExt:
			body = fmt.Sprintf("((_ zero_extend %d) %s)", t.W-t.Args[0].W, ref(t.Args[0]))
		case OpSExt:
			body = fmt.Sprintf("((_ sign_extend %d) %s)", t.W-t.Args[0].W, ref(t.Args[0]))
		case OpUF:
			parts := []string{smtName(t.Name)}
			for _, a := range t.Args {
				parts = append(parts, ref(a))
			}
			body = "(" + strings.Join(parts, " ") + ")"
		default:
			parts := []string{opNames[t.Op]}
			for _, a := range t.Args {
				parts = append(parts, ref(a))
			}
			body = "(" + strings.Join(parts, " ") + ")"
		}
		fmt.Fprintf(&sb, "(define-fun t%d () %s %s)\n", t.ID, sortStr(t.W), body)
	}
	for _, a := range asserts {
		fmt.Fprintf(&sb, "(assert %s)\n", ref(a))
	}
	sort.Slice(vars, func(i, j int) bool { return vars[i].ID < vars[j].ID })
	return sb.String(), vars
}

func (t *Term) String() string {
	switch t.Op {
	case OpConst:
		if t.W == 0 {
			return constStr(t)
		}
		return fmt.Sprintf("%d:%d", t.Val, t.W)
	case OpVar:
		return t.Name
	case OpExtract:
		return fmt.Sprintf("%s[%d:%d]", t.Args[0], t.Hi, t.Lo)
	}
	var parts []string
	for _, a := range t.Args {
		parts = append(parts, a.String())
	}
	n := opNames[t.Op]
	if t.Op == OpZExt {
		n = fmt.Sprintf("zext%d", t.W)
	} else if t.Op == OpSExt {
		n = fmt.Sprintf("sext%d", t.W)
	} else if t.Op == OpUF {
		n = t.Name
	}
	s := "(" + n + " " + strings.Join(parts, " ") + ")"
	if len(s) > 400 {
		s = s[:400] + "…"
	}
	return s
}
