package main

import (
	"fmt"
	"go/types"
	"os"
	"path/filepath"
	"regexp"
	"sort"
	"strings"

	"golang.org/x/tools/go/packages"
	"golang.org/x/tools/go/ssa"
	"golang.org/x/tools/go/ssa/ssautil"
)

const modPath = "github.com/ulikunitz/xz"

// harness package key -> (directory under /repo, import path, Go package name)
type pkgSpec struct {
	key, dir, path, name string
}

var pkgSpecs = []pkgSpec{
	{"xz", "", modPath, "xz"},
	{"lzma", "lzma", modPath + "/lzma", "lzma"},
	{"hash", "internal/hash", modPath + "/internal/hash", "hash"},
	{"gxz", "cmd/gxz", modPath + "/cmd/gxz", "main"},
}

func specByKey(key string) *pkgSpec {
	for i := range pkgSpecs {
		if pkgSpecs[i].key == key {
			return &pkgSpecs[i]
		}
	}
	return nil
}

type Loaded struct {
	in        *Interp
	harnesses map[string]map[string]*ssa.Function // pkg key -> name -> fn
	overlay   map[string][]byte
	repo      string
	verif     string
	loadErrs  []string
}

var harnessFuncRe = regexp.MustCompile(`(?m)^func (VH_[A-Za-z0-9_]+)\(\)`)

// buildOverlay maps harness sources into the repository's packages.
func buildOverlay(repo, verif string, native bool) (map[string][]byte, map[string][]string, error) {
	ov := map[string][]byte{}
	names := map[string][]string{}
	tmpl, err := os.ReadFile(filepath.Join(verif, "harness/common/intr.go.tmpl"))
	if err != nil {
		return nil, nil, err
	}
	rtmpl, err := os.ReadFile(filepath.Join(verif, "harness/common/replay_test.go.tmpl"))
	if err != nil {
		return nil, nil, err
	}
	for _, ps := range pkgSpecs {
		dir := filepath.Join(verif, "harness", ps.key)
		files, _ := filepath.Glob(filepath.Join(dir, "*.go"))
		if len(files) == 0 {
			continue
		}
		sort.Strings(files)
		var hn []string
		for _, f := range files {
			data, err := os.ReadFile(f)
			if err != nil {
				return nil, nil, err
			}
			base := filepath.Base(f)
			ov[filepath.Join(repo, ps.dir, "zz_verif_"+base)] = data
			for _, m := range harnessFuncRe.FindAllSubmatch(data, -1) {
				hn = append(hn, string(m[1]))
			}
		}
		sort.Strings(hn)
		names[ps.key] = hn
		ov[filepath.Join(repo, ps.dir, "zz_verif_intr.go")] = []byte(strings.Replace(string(tmpl), "PKGNAME", ps.name, 1))
		shared, _ := filepath.Glob(filepath.Join(verif, "harness/common/*.go.tmpl"))
		for _, sf := range shared {
			b := filepath.Base(sf)
			if b == "intr.go.tmpl" || b == "replay_test.go.tmpl" {
				continue
			}
			if ps.key == "gxz" && b == "iomodels.go.tmpl" {
				continue
			}
			data, err := os.ReadFile(sf)
			if err != nil {
				return nil, nil, err
			}
			ov[filepath.Join(repo, ps.dir, "zz_verif_"+strings.TrimSuffix(b, ".tmpl"))] = []byte(strings.Replace(string(data), "PKGNAME", ps.name, 1))
		}
		if native {
			var sb strings.Builder
			fmt.Fprintf(&sb, "package %s\n\nvar vHarnesses = map[string]func(){\n", ps.name)
			for _, n := range hn {
				fmt.Fprintf(&sb, "\t%q: %s,\n", n, n)
			}
			sb.WriteString("}\n")
			ov[filepath.Join(repo, ps.dir, "zz_verif_registry.go")] = []byte(sb.String())
			ov[filepath.Join(repo, ps.dir, "zz_verif_replay_test.go")] = []byte(strings.Replace(string(rtmpl), "PKGNAME", ps.name, 1))
		}
	}
	return ov, names, nil
}

func goEnv() []string {
	env := os.Environ()
	env = append(env, "GOFLAGS=-mod=mod", "GOPROXY=off", "GOSUMDB=off", "GOTOOLCHAIN=local", "GOARCH=amd64", "GOOS=linux", "CGO_ENABLED=0")
	return env
}

func Load(repo, verif string) (*Loaded, error) {
	ov, names, err := buildOverlay(repo, verif, false)
	if err != nil {
		return nil, err
	}
	cfg := &packages.Config{
		Mode: packages.NeedName | packages.NeedFiles | packages.NeedCompiledGoFiles | packages.NeedImports |
			packages.NeedDeps | packages.NeedTypes | packages.NeedSyntax | packages.NeedTypesInfo | packages.NeedTypesSizes | packages.NeedModule,
		Dir:     repo,
		Overlay: ov,
		Env:     goEnv(),
	}
	pats := []string{}
	for _, ps := range pkgSpecs {
		pats = append(pats, ps.path)
	}
	pats = append(pats, "io", "bytes", "bufio", "errors", "hash/crc32", "hash/crc64", "crypto/sha256", "strings", "path/filepath", "os")
	pkgs, err := packages.Load(cfg, pats...)
	if err != nil {
		return nil, err
	}
	ld := &Loaded{harnesses: map[string]map[string]*ssa.Function{}, overlay: ov, repo: repo, verif: verif}
	for _, p := range pkgs {
		for _, e := range p.Errors {
			if strings.HasPrefix(p.PkgPath, modPath) {
				ld.loadErrs = append(ld.loadErrs, e.Error())
			}
		}
	}
	if len(ld.loadErrs) > 0 {
		return ld, fmt.Errorf("harness/package load errors:\n  %s", strings.Join(ld.loadErrs, "\n  "))
	}
	prog, _ := ssautil.AllPackages(pkgs, ssa.InstantiateGenerics)
	prog.Build()
	in := &Interp{prog: prog, pkgs: map[string]*ssa.Package{}, sizes: map[types.Type]int{}, finfo: map[*ssa.Function]*fnInfo{}}
	for _, sp := range prog.AllPackages() {
		in.pkgs[sp.Pkg.Path()] = sp
	}
	ld.in = in
	for _, ps := range pkgSpecs {
		sp := in.pkgs[ps.path]
		if sp == nil {
			continue
		}
		m := map[string]*ssa.Function{}
		for _, n := range names[ps.key] {
			if f := sp.Func(n); f != nil {
				m[n] = f
			}
		}
		ld.harnesses[ps.key] = m
	}
	return ld, nil
}
