package main

import (
	"bufio"
	"bytes"
	"crypto/sha1"
	"encoding/json"
	"flag"
	"fmt"
	"os"
	"os/exec"
	"path/filepath"
	"runtime"
	"sort"
	"strconv"
	"strings"
	"sync"
	"time"
)

type Lemma struct {
	Name      string   `json:"name"`
	Pkg       string   `json:"pkg"`
	Harnesses []string `json:"harnesses"`
	Props     []string `json:"props"`
	Bounds    string   `json:"bounds"`
	Thorough  string   `json:"bounds_thorough,omitempty"`
	Cuts      []string `json:"cuts,omitempty"`
	Tier      string   `json:"tier,omitempty"`      // "" = both, "thorough" = thorough only
	NoNative  bool     `json:"no_native,omitempty"` // harness uses substitutions: no native twin
	Functions []string `json:"functions,omitempty"` // functions that must appear among those encoded
	// ThoroughAsQuick: the deeper bounds of this lemma were never run clean on the
	// unchanged tree within the build session, so the thorough tier runs it at its
	// quick bounds (with the thorough tier's solver cap, second opinion and seeds).
	ThoroughAsQuick bool `json:"thorough_as_quick,omitempty"`
}

// deep reports whether the lemma runs at its thorough bounds in this tier.
func (l *Lemma) deep(tier string) bool { return tier == "thorough" && !l.ThoroughAsQuick }

type LemmaFile struct {
	Lemmas      []Lemma             `json:"lemmas"`
	Level       map[string]string   `json:"level"`
	Assumptions map[string][]string `json:"assumptions"`
}

type KnownFinding struct {
	Property string `json:"property"`
	Lemma    string `json:"lemma"`
	Harness  string `json:"harness"`
	Label    string `json:"label"`
	What     string `json:"what"`
	Status   string `json:"status"` // open | fixed
	Commit   string `json:"commit,omitempty"`
}

type nativeRun struct {
	Outcome string
	Obs     []obsRec
	Fail    string
	Panic   string
}

type jobResult struct {
	lemma *Lemma
	res   *HarnessResult
	// translator validation
	tvRuns     int
	tvMismatch []string
}

func cmdRun(args []string) {
	fs := flag.NewFlagSet("run", flag.ExitOnError)
	repo := fs.String("repo", envOr("VERIF_REPO", "/repo"), "repository")
	verif := fs.String("verif", envOr("VERIF_DIR", "/verif"), "verif dir")
	prop := fs.String("prop", "", "property id")
	tier := fs.String("tier", envOr("VERIF_TIER", "quick"), "quick|thorough")
	only := fs.String("lemma", "", "only this lemma (debug)")
	noNative := fs.Bool("no-native", false, "skip native validation (debug)")
	jobs := fs.Int("j", runtime.NumCPU(), "parallel harness runs")
	fs.Parse(args)
	if *prop == "" {
		fmt.Fprintln(os.Stderr, "usage: vcheck run --prop Cxx [--tier quick|thorough]")
		os.Exit(2)
	}
	seed, _ := strconv.ParseUint(envOr("VERIF_SEED", "1"), 10, 64)
	t0 := time.Now()
	os.Exit(runProperty(*repo, *verif, *prop, *tier, *only, seed, *jobs, *noNative, t0))
}

func readLemmas(verif string) (*LemmaFile, error) {
	data, err := os.ReadFile(filepath.Join(verif, "lemmas.json"))
	if err != nil {
		return nil, err
	}
	var lf LemmaFile
	if err := json.Unmarshal(data, &lf); err != nil {
		return nil, fmt.Errorf("lemmas.json: %v", err)
	}
	return &lf, nil
}

func readKnown(verif string) []KnownFinding {
	data, err := os.ReadFile(filepath.Join(verif, "known_findings.json"))
	if err != nil {
		return nil
	}
	var kf []KnownFinding
	if json.Unmarshal(data, &kf) != nil {
		return nil
	}
	return kf
}

func thoroughEnv(tier string) {
	if tier == "thorough" {
		os.Setenv("VERIF_THOROUGH", "1")
	} else {
		os.Unsetenv("VERIF_THOROUGH")
	}
}

func runProperty(repo, verif, prop, tier, only string, seed uint64, nj int, skipNative bool, t0 time.Time) int {
	lf, err := readLemmas(verif)
	if err != nil {
		fmt.Fprintln(os.Stderr, err)
		return 2
	}
	thoroughEnv(tier)
	var lemmas []*Lemma
	for i := range lf.Lemmas {
		l := &lf.Lemmas[i]
		if l.Tier == "thorough" && tier != "thorough" {
			continue
		}
		if only != "" && l.Name != only {
			continue
		}
		for _, pr := range l.Props {
			if pr == prop {
				lemmas = append(lemmas, l)
				break
			}
		}
	}
	if len(lemmas) == 0 {
		fmt.Fprintf(os.Stderr, "no lemmas registered for %s\n", prop)
		return 2
	}
	ld, err := Load(repo, verif)
	if err != nil {
		fmt.Printf("STALE property=%s harness or repository does not load: %v\n", prop, err)
		return 2
	}
	loadS := time.Since(t0).Seconds()
	capMs := 60000
	wall := 8 * time.Minute
	if tier == "thorough" {
		capMs = 600000
		wall = 60 * time.Minute
	}
	type job struct {
		l             *Lemma
		h             string
		shard, shards int
	}
	var jl []job
	for _, l := range lemmas {
		for _, h := range l.Harnesses {
			// "VH_name*8" = explore the harness in 8 independent shards (the harness splits on vShardIdx)
			shards := 0
			if i := strings.Index(h, "*"); i >= 0 {
				shards, _ = strconv.Atoi(h[i+1:])
				h = h[:i]
			}
			if ld.harnesses[l.Pkg][h] == nil {
				fmt.Printf("STALE property=%s harness %s/%s missing\n", prop, l.Pkg, h)
				return 2
			}
			if shards <= 1 {
				jl = append(jl, job{l, h, 0, 0})
				continue
			}
			for k := 0; k < shards; k++ {
				jl = append(jl, job{l, h, k, shards})
			}
		}
	}
	stats := &SolverStats{}
	results := make([]*jobResult, len(jl))
	var wg sync.WaitGroup
	sem := make(chan struct{}, nj)
	for i, j := range jl {
		wg.Add(1)
		go func(i int, j job) {
			defer wg.Done()
			sem <- struct{}{}
			defer func() { <-sem }()
			opt := RunOpts{CapMs: capMs, Wall: wall, Diff: tier == "thorough", Thorough: j.l.deep(tier), Shard: j.shard, Shards: j.shards}
			res := RunHarness(ld, j.l.Pkg, j.h, opt, stats)
			if j.shards > 1 {
				res.Shard = fmt.Sprintf("%d/%d", j.shard, j.shards)
			}
			results[i] = &jobResult{lemma: j.l, res: res}
		}(i, j)
	}
	wg.Wait()

	// ---- native side: translator validation and replay ----
	tmp, err := os.MkdirTemp("", "vcheck-")
	if err != nil {
		fmt.Fprintln(os.Stderr, err)
		return 2
	}
	defer os.RemoveAll(tmp)
	nat := &nativeSide{repo: repo, verif: verif, tmp: tmp, bins: map[string]string{}, errs: map[string]string{}}
	nSeeds := 12
	if tier == "thorough" {
		nSeeds = 100
	}
	tvTotal, tvBad := 0, 0
	var engineMismatch []string
	if !skipNative {
		byPkg := map[string][]*jobResult{}
		for _, jr := range results {
			if !jr.lemma.NoNative && (jr.res.Shard == "" || strings.HasPrefix(jr.res.Shard, "0/")) {
				k := jr.lemma.Pkg
				if jr.lemma.deep(tier) {
					k += "|deep"
				}
				byPkg[k] = append(byPkg[k], jr)
			}
		}
		for key, jrs := range byPkg {
			pkg := strings.TrimSuffix(key, "|deep")
			deep := strings.HasSuffix(key, "|deep")
			var hs []string
			for _, jr := range jrs {
				hs = append(hs, jr.res.Name)
			}
			var seeds []uint64
			for k := 0; k < nSeeds; k++ {
				seeds = append(seeds, seed*1000+uint64(k))
			}
			natRuns, err := nat.runSeeds(pkg, hs, seeds, deep)
			if err != nil {
				engineMismatch = append(engineMismatch, fmt.Sprintf("native build/run failed for package %s: %v", pkg, err))
				continue
			}
			for _, jr := range jrs {
				for _, sd := range seeds {
					nr := natRuns[fmt.Sprintf("%s/%d", jr.res.Name, sd)]
					if nr == nil {
						jr.tvMismatch = append(jr.tvMismatch, fmt.Sprintf("seed %d: no native result", sd))
						continue
					}
					ir := RunHarness(ld, pkg, jr.res.Name, RunOpts{CapMs: capMs, Wall: time.Minute, Concrete: true, Seed: sd, Thorough: deep}, nil)
					jr.tvRuns++
					tvTotal++
					if d := compareRuns(ir, nr); d != "" {
						tvBad++
						jr.tvMismatch = append(jr.tvMismatch, fmt.Sprintf("seed %d: %s", sd, d))
					}
				}
				for _, m := range jr.tvMismatch {
					engineMismatch = append(engineMismatch, jr.res.Name+": "+m)
				}
			}
		}
	}

	// ---- violations ----
	known := readKnown(verif)
	exit := 0
	var outLines []string
	violations := 0
	knownHits := 0
	var sampleViol []interface{}
	replayDir := filepath.Join(verif, "replays", prop)
	for _, jr := range results {
		for _, v := range jr.res.Violations {
			os.MkdirAll(replayDir, 0o755)
			h := sha1.Sum([]byte(v.Harness + "|" + v.Label))
			rp := filepath.Join(replayDir, fmt.Sprintf("%s-%x.json", jr.lemma.Name, h[:4]))
			rf := map[string]interface{}{"property": prop, "lemma": jr.lemma.Name, "package": jr.lemma.Pkg, "harness": v.Harness,
				"failed": v.Label, "kind": v.Kind, "site": v.Site, "nondet": v.Nondet, "order": v.Order, "stack": v.Stack}
			// replay: interpreter in concrete mode, then natively
			vals := map[string]uint64{}
			for k, hx := range v.Nondet {
				x, _ := strconv.ParseUint(hx, 16, 64)
				vals[k] = x
			}
			ir := RunHarness(ld, jr.lemma.Pkg, v.Harness, RunOpts{CapMs: capMs, Wall: time.Minute, Concrete: true, Values: vals, Thorough: jr.lemma.deep(tier)}, nil)
			interpOK := reproduces(ir, v)
			rf["interpreter_concrete_replay"] = boolWord(interpOK)
			nativeOK := false
			nativeNote := "not available (harness uses substitutions)"
			if !jr.lemma.NoNative && !skipNative {
				data, _ := json.MarshalIndent(rf, "", " ")
				os.WriteFile(rp, data, 0o644)
				nr, err := nat.runFile(jr.lemma.Pkg, v.Harness, rp, jr.lemma.deep(tier))
				if err != nil {
					nativeNote = "native replay failed to run: " + err.Error()
				} else {
					nativeOK = nativeReproduces(nr, v)
					nativeNote = boolWord(nativeOK)
					if nr.Fail != "" {
						nativeNote += " (native failed assert: " + nr.Fail + ")"
					}
					if nr.Panic != "" {
						nativeNote += " (native panic: " + nr.Panic + ")"
					}
				}
			}
			rf["native_replay"] = nativeNote
			data, _ := json.MarshalIndent(rf, "", " ")
			os.WriteFile(rp, data, 0o644)
			confirmed := nativeOK || (jr.lemma.NoNative && interpOK) || (skipNative && interpOK)
			if !confirmed {
				exit = max(exit, 3)
				outLines = append(outLines, fmt.Sprintf("INCONCLUSIVE property=%s lemma=%s harness=%s assert=%q counterexample did not reproduce (interpreter=%v native=%s) replay=%s",
					prop, jr.lemma.Name, v.Harness, v.Label, interpOK, nativeNote, rp))
				continue
			}
			if kf := matchKnown(known, v); kf != nil {
				knownHits++
				outLines = append(outLines, fmt.Sprintf("KNOWN-FINDING: property=%s lemma=%s harness=%s assert=%q %s", prop, jr.lemma.Name, v.Harness, v.Label, kf.What))
				continue
			}
			violations++
			exit = max(exit, 1)
			outLines = append(outLines, fmt.Sprintf("VIOLATION property=%s replay=%s lemma=%s harness=%s assert=%q", prop, rp, jr.lemma.Name, v.Harness, v.Label))
			if len(sampleViol) < 5 {
				sampleViol = append(sampleViol, rf)
			}
		}
	}
	// ---- inconclusive / vacuity / engine mismatch ----
	for _, jr := range results {
		if len(jr.res.Inconclusive) > 0 {
			exit = max(exit, 3)
			for i, s := range jr.res.Inconclusive {
				if i >= 3 {
					break
				}
				outLines = append(outLines, fmt.Sprintf("INCONCLUSIVE property=%s lemma=%s harness=%s %s", prop, jr.lemma.Name, jr.res.Name, s))
			}
		}
		if jr.res.Vacuous && len(jr.res.Violations) == 0 {
			exit = max(exit, 3)
			outLines = append(outLines, fmt.Sprintf("VACUOUS property=%s lemma=%s harness=%s end of harness unreachable", prop, jr.lemma.Name, jr.res.Name))
		}
		for _, fn := range jr.lemma.Functions {
			found := false
			for _, f := range jr.res.Functions {
				short := f
				for _, pre := range []string{"github.com/ulikunitz/xz/lzma.", "github.com/ulikunitz/xz/internal/hash.", "github.com/ulikunitz/xz/cmd/gxz.", "github.com/ulikunitz/xz."} {
					short = strings.Replace(short, pre, "", 1)
				}
				if strings.HasSuffix(f, fn) || strings.HasSuffix(short, fn) {
					found = true
				}
			}
			if !found && len(jr.lemma.Harnesses) == 1 && len(jr.res.Inconclusive) == 0 {
				exit = max(exit, 3)
				outLines = append(outLines, fmt.Sprintf("VACUOUS property=%s lemma=%s function %s was never executed", prop, jr.lemma.Name, fn))
			}
		}
	}
	if len(engineMismatch) > 0 {
		exit = max(exit, 3)
		for i, m := range engineMismatch {
			if i >= 5 {
				break
			}
			outLines = append(outLines, fmt.Sprintf("ENGINE-MISMATCH property=%s %s", prop, m))
		}
	}
	seenLine := map[string]bool{}
	if violations > 0 {
		exit = 1 // a replayed violation stands, whatever else was inconclusive
	}
	for _, l := range outLines {
		if !seenLine[l] {
			fmt.Println(l)
		}
		seenLine[l] = true
	}
	writeEvidence(verif, prop, tier, seed, lf, results, stats, tvTotal, tvBad, violations, knownHits, sampleViol, loadS, time.Since(t0).Seconds(), exit, nSeeds)
	fmt.Printf("property=%s tier=%s lemmas=%d harnesses=%d exit=%d wall=%.1fs\n", prop, tier, len(lemmas), len(results), exit, time.Since(t0).Seconds())
	return exit
}

func boolWord(b bool) string {
	if b {
		return "reproduced"
	}
	return "not reproduced"
}

func matchKnown(known []KnownFinding, v Violation) *KnownFinding {
	for i := range known {
		k := &known[i]
		if k.Status != "open" {
			continue
		}
		if k.Harness == v.Harness && k.Label == v.Label {
			return k
		}
	}
	return nil
}

func reproduces(ir *HarnessResult, v Violation) bool {
	for _, x := range ir.Violations {
		if x.Label == v.Label {
			return true
		}
	}
	return false
}

func nativeReproduces(nr *nativeRun, v Violation) bool {
	if v.Kind == "panic" {
		return nr.Outcome == "panic"
	}
	return nr.Fail == v.Label
}

func compareRuns(ir *HarnessResult, nr *nativeRun) string {
	// outcome
	io := "return"
	for k := range ir.Ended {
		io = k
	}
	if io == "endpath" || io == "assume-false" || io == "return" || io == "panic" || io == "assert-failed" {
		if io != nr.Outcome {
			return fmt.Sprintf("outcome interpreter=%s native=%s (%v)", io, nr.Outcome, ir.Inconclusive)
		}
	} else {
		return fmt.Sprintf("interpreter outcome %s (%v)", io, ir.Inconclusive)
	}
	var iobs []obsRec
	if len(ir.Obs) > 0 {
		iobs = ir.Obs[0]
	}
	if len(iobs) != len(nr.Obs) {
		return fmt.Sprintf("observation count interpreter=%d native=%d", len(iobs), len(nr.Obs))
	}
	for i := range iobs {
		if iobs[i] != nr.Obs[i] {
			return fmt.Sprintf("observation %d: interpreter=%v native=%v", i, iobs[i], nr.Obs[i])
		}
	}
	return ""
}

// ---------------------------------------------------------------------

type nativeSide struct {
	repo, verif, tmp string
	bins             map[string]string
	errs             map[string]string
	mu               sync.Mutex
}

func (n *nativeSide) build(pkg string) (string, error) {
	n.mu.Lock()
	defer n.mu.Unlock()
	if b, ok := n.bins[pkg]; ok {
		return b, nil
	}
	if e, ok := n.errs[pkg]; ok {
		return "", fmt.Errorf("%s", e)
	}
	ov, _, err := buildOverlay(n.repo, n.verif, true)
	if err != nil {
		return "", err
	}
	rep := map[string]string{}
	i := 0
	for virt, data := range ov {
		i++
		real := filepath.Join(n.tmp, fmt.Sprintf("ov%d_%s", i, filepath.Base(virt)))
		if err := os.WriteFile(real, data, 0o644); err != nil {
			return "", err
		}
		rep[virt] = real
	}
	oj, _ := json.Marshal(map[string]interface{}{"Replace": rep})
	ovFile := filepath.Join(n.tmp, "overlay.json")
	os.WriteFile(ovFile, oj, 0o644)
	ps := specByKey(pkg)
	bin := filepath.Join(n.tmp, pkg+".test")
	cmd := exec.Command("go", "test", "-c", "-vet=off", "-o", bin, "-overlay", ovFile, "./"+ps.dir)
	cmd.Dir = n.repo
	cmd.Env = append(goEnv(), "GOFLAGS=-mod=mod")
	out, err := cmd.CombinedOutput()
	if err != nil {
		n.errs[pkg] = fmt.Sprintf("go test -c: %v: %s", err, out)
		return "", fmt.Errorf("%s", n.errs[pkg])
	}
	n.bins[pkg] = bin
	return bin, nil
}

func parseNative(out []byte) map[string]*nativeRun {
	res := map[string]*nativeRun{}
	var cur *nativeRun
	sc := bufio.NewScanner(bytes.NewReader(out))
	sc.Buffer(make([]byte, 1<<20), 1<<26)
	for sc.Scan() {
		line := sc.Text()
		f := strings.Fields(line)
		if len(f) == 0 {
			continue
		}
		switch f[0] {
		case "VRUN":
			cur = &nativeRun{}
			res[f[1]+"/"+f[2]] = cur
		case "VOBS":
			if cur != nil && len(f) >= 3 {
				v, _ := strconv.ParseUint(f[len(f)-1], 10, 64)
				cur.Obs = append(cur.Obs, obsRec{strings.Join(f[1:len(f)-1], " "), v})
			}
		case "VASSERT-FAIL":
			if cur != nil {
				cur.Fail = strings.TrimPrefix(line, "VASSERT-FAIL ")
			}
		case "VPANIC":
			if cur != nil {
				cur.Panic = strings.TrimPrefix(line, "VPANIC ")
			}
		case "VRESULT":
			if cur != nil && len(f) >= 3 {
				cur.Outcome = f[2]
			}
		}
	}
	return res
}

func (n *nativeSide) run(pkg string, env []string) ([]byte, error) {
	bin, err := n.build(pkg)
	if err != nil {
		return nil, err
	}
	ps := specByKey(pkg)
	cmd := exec.Command("timeout", "600", bin, "-test.run", "^TestVReplay$", "-test.count=1")
	cmd.Dir = filepath.Join(n.repo, ps.dir)
	cmd.Env = append(os.Environ(), env...)
	out, err := cmd.CombinedOutput()
	if err != nil && !bytes.Contains(out, []byte("VRESULT")) {
		return out, fmt.Errorf("native run: %v: %.400s", err, out)
	}
	return out, nil
}

func thoroughVar(deep bool) string {
	if deep {
		return "VERIF_THOROUGH=1"
	}
	return "VERIF_THOROUGH=" // overrides the process environment: vThorough() is false
}

func (n *nativeSide) runSeeds(pkg string, hs []string, seeds []uint64, deep bool) (map[string]*nativeRun, error) {
	var ss []string
	for _, s := range seeds {
		ss = append(ss, strconv.FormatUint(s, 10))
	}
	env := []string{"VREPLAY_HARNESS=" + strings.Join(hs, ","), "VREPLAY_SEEDS=" + strings.Join(ss, ",")}
	env = append(env, thoroughVar(deep))
	out, err := n.run(pkg, env)
	if err != nil {
		return nil, err
	}
	return parseNative(out), nil
}

func (n *nativeSide) runFile(pkg, h, file string, deep bool) (*nativeRun, error) {
	out, err := n.run(pkg, []string{"VREPLAY_HARNESS=" + h, "VREPLAY_FILE=" + file, thoroughVar(deep)})
	if err != nil {
		return nil, err
	}
	m := parseNative(out)
	for _, v := range m {
		return v, nil
	}
	return nil, fmt.Errorf("no native result in output: %.300s", out)
}

// ---------------------------------------------------------------------

func writeEvidence(verif, prop, tier string, seed uint64, lf *LemmaFile, results []*jobResult, stats *SolverStats,
	tvTotal, tvBad, violations, knownHits int, sampleViol []interface{}, loadS, wallS float64, exit int, nSeeds int) {
	level := lf.Level[prop]
	if level == "" {
		level = "model_checking"
	}
	paths, steps, obl, dis, triv := 0, 0, 0, 0, 0
	nontrivial := map[string]bool{}
	var lemmas []interface{}
	var samples []interface{}
	fnset := map[string]bool{}
	for _, jr := range results {
		r := jr.res
		paths += r.Paths
		steps += r.Steps
		obl += r.Obligations
		dis += r.Discharged
		triv += r.Trivial
		for l, a := range r.Asserts {
			if a.Unsat+a.Sat > 0 {
				nontrivial[r.Name+"/"+l] = true
			}
		}
		for _, f := range r.Functions {
			if !strings.Contains(f, ".v") && !strings.Contains(f, "VH_") {
				fnset[f] = true
			}
		}
		var fns []string
		for _, f := range r.Functions {
			if strings.Contains(f, "ulikunitz") && !strings.Contains(f, ".VH_") && !strings.Contains(f, ".v") {
				fns = append(fns, strings.Replace(f, "github.com/ulikunitz/xz", "xz", 1))
			}
		}
		if len(fns) > 40 {
			fns = append(fns[:40], fmt.Sprintf("… %d more", len(fns)-40))
		}
		var asserts []interface{}
		var labels []string
		for l := range r.Asserts {
			labels = append(labels, l)
		}
		sort.Strings(labels)
		for _, l := range labels {
			a := r.Asserts[l]
			asserts = append(asserts, map[string]interface{}{"label": l, "checked_on_paths": a.Checked, "unsat": a.Unsat, "sat": a.Sat, "unknown": a.Unknown, "folded_to_true": a.Trivial})
		}
		bounds := jr.lemma.Bounds
		if jr.lemma.deep(tier) && jr.lemma.Thorough != "" {
			bounds = jr.lemma.Thorough
		} else if tier == "thorough" && jr.lemma.ThoroughAsQuick {
			bounds += " [thorough tier runs this lemma at its quick bounds: deeper bounds were not run clean on the unchanged tree within the build session]"
		}
		twin := "violated (good: end of harness reachable)"
		if r.Vacuous {
			twin = "NOT violated: harness vacuous"
		}
		lemmas = append(lemmas, map[string]interface{}{
			"lemma": jr.lemma.Name, "harness": r.Name, "shard": r.Shard, "package": r.Pkg, "bounds": bounds, "cuts_and_stubs": jr.lemma.Cuts,
			"functions_encoded": fns, "paths": r.Paths, "ssa_steps": r.Steps, "forks": r.Forks, "path_ends": r.Ended,
			"queries":  map[string]interface{}{"total": r.Solver.Queries, "unsat": r.Solver.Unsat, "sat": r.Solver.Sat, "unknown": r.Solver.Unknown, "errors": r.Solver.Errors, "cache_hits": r.Solver.CacheHits, "by_solver": r.Solver.BySolver},
			"solver_s": round1(r.Solver.TimeS), "solver_max_query_s": round1(r.Solver.MaxS), "wall_s": round1(r.WallS),
			"assertions": asserts, "unwinding_assertions": unwindWord(r), "vacuity_twin": twin,
			"translator_validation_runs": jr.tvRuns, "translator_validation_mismatches": len(jr.tvMismatch),
			"inconclusive": r.Inconclusive, "violations": len(r.Violations),
		})
		for _, pc := range r.SamplePCs {
			if len(samples) < 8 {
				samples = append(samples, map[string]interface{}{"harness": r.Name, "path_condition": pc, "result": "all assertions on this path unsat (hold)"})
			}
		}
	}
	samples = append(samples, sampleViol...)
	if len(samples) == 0 {
		samples = append(samples, map[string]interface{}{"note": "all paths had constant path conditions"})
	}
	assume := lf.Assumptions["*"]
	assume = append(assume, lf.Assumptions[prop]...)
	ev := map[string]interface{}{
		"property_id": prop, "tier": tier, "seed": seed, "level": level,
		"coverage": map[string]interface{}{
			"states": max(paths, 1), "transitions": max(steps, 1), "traces_validated_against_impl": tvTotal - tvBad,
			"obligations": obl, "discharged": dis, "obligations_folded_to_true_by_simplifier": triv,
			"evaluations": max(obl, 1), "distinct_nontrivial": len(nontrivial),
			"rule":         "one obligation = one (path, assertion) pair; states = explored feasible paths, transitions = SSA instructions interpreted; distinct_nontrivial counts distinct (harness, assertion label) pairs that needed at least one solver query (not folded to true by constant propagation)",
			"checker_cmd":  fmt.Sprintf("/verif/bin/vcheck run --prop %s --tier %s", prop, tier),
			"trusted_base": []string{"engine /verif/engine (go/ssa -> SMT-LIB2 symbolic interpreter)", "z3 5.1.0 (z3-new), cvc5 1.0", "golang.org/x/tools v0.29.0 go/ssa", "reference specification in /verif/harness/*/spec*.go", "stubs and cuts listed per lemma"},
			"lemmas":       lemmas, "samples": samples,
			"solver":                    map[string]interface{}{"queries": stats.Queries, "unsat": stats.Unsat, "sat": stats.Sat, "unknown": stats.Unknown, "errors": stats.Errors, "time_s": round1(stats.TimeS), "max_query_s": round1(stats.MaxS), "by_solver": stats.BySolver},
			"encoding_regenerated_from": "/repo working tree at run time (go/packages + overlay harness)", "load_s": round1(loadS),
			"translator_validation":  map[string]interface{}{"seeds_per_harness": nSeeds, "runs": tvTotal, "mismatches": tvBad},
			"known_findings_matched": knownHits,
			"exit":                   exit,
			"explanation":            "bounded symbolic execution of the real functions; every verdict holds only within the bounds listed per lemma",
		},
		"assumptions": assume,
		"wall_s":      round1(wallS),
		"violations":  violations,
	}
	os.MkdirAll(filepath.Join(verif, "evidence"), 0o755)
	data, _ := json.MarshalIndent(ev, "", " ")
	os.WriteFile(filepath.Join(verif, "evidence", prop+".json"), data, 0o644)
}

func unwindWord(r *HarnessResult) string {
	for _, s := range r.Inconclusive {
		if strings.HasPrefix(s, "unwind") {
			return "FAILED: " + s
		}
	}
	return "passed (no loop exceeded its bound on a feasible path)"
}

func round1(x float64) float64 { return float64(int(x*10+0.5)) / 10 }
