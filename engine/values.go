package main

import (
	"fmt"
	"go/types"
	"sort"

	"golang.org/x/tools/go/ssa"
)

// Value is one of: *Term (scalar), Ptr, Slice, Str, Iface, Closure, *Agg,
// MapRef, ChanRef, Opaque.
type Value interface{}

// Ptr is a pointer to a cell of a heap object. Obj==0 is nil. The cell
// offset is Off + Sym, where Sym (BV64, may be nil) ranges over Cands.
type Ptr struct {
	Obj   int
	Off   int
	Sym   *Term
	Cands []int
}

type Slice struct {
	P        Ptr
	Len, Cap *Term // BV64
	Stride   int   // cells per element (informational; taken from SSA types on use)
}

// Str is an immutable string: either a Go string constant or a snapshot
// object of bytes.
type Str struct {
	S     string
	IsObj bool
	P     Ptr
	Len   *Term
}

type Iface struct {
	T types.Type // dynamic type; nil means nil interface
	V Value
}

type Closure struct {
	Fn    *ssa.Function // nil means nil func
	Binds []Value
	Bltn  string
}

type Agg struct{ E []Value }

type MapRef struct{ Obj int }
type ChanRef struct{ Obj int }

type Opaque struct{ Why string }

type Object struct {
	ID     int
	N      int
	Dense  []Value
	Sparse map[int]Value
	Zero   []Value // zero pattern, period len(Zero)
	Epoch  int
	Name   string
	Global bool
	NoInit bool // global of a package whose initialiser is not interpreted
	// maps
	IsMap bool
	Keys  []Value
	Vals  []Value
}

const denseLimit = 4096

func (o *Object) get(i int) Value {
	if i < 0 || i >= o.N {
		panic(fmt.Sprintf("object %d(%s): cell %d out of range %d", o.ID, o.Name, i, o.N))
	}
	if o.Dense != nil {
		return o.Dense[i]
	}
	if v, ok := o.Sparse[i]; ok {
		return v
	}
	return o.Zero[i%len(o.Zero)]
}

func (o *Object) set(i int, v Value) {
	if i < 0 || i >= o.N {
		panic(fmt.Sprintf("object %d(%s): cell %d out of range %d", o.ID, o.Name, i, o.N))
	}
	if o.Dense != nil {
		o.Dense[i] = v
		return
	}
	o.Sparse[i] = v
}

func (o *Object) clone(epoch int) *Object {
	c := *o
	c.Epoch = epoch
	if o.Dense != nil {
		c.Dense = make([]Value, len(o.Dense))
		copy(c.Dense, o.Dense)
	}
	if o.Sparse != nil {
		c.Sparse = make(map[int]Value, len(o.Sparse))
		for k, v := range o.Sparse {
			c.Sparse[k] = v
		}
	}
	if o.IsMap {
		c.Keys = append([]Value(nil), o.Keys...)
		c.Vals = append([]Value(nil), o.Vals...)
	}
	return &c
}

// ---------------------------------------------------------------------
// type layout

type layoutCache struct {
	size map[types.Type]int
}

func basicWidth(b *types.Basic) (w int, signed bool, ok bool) {
	switch b.Kind() {
	case types.Bool, types.UntypedBool:
		return 0, false, true
	case types.Int, types.Int64, types.UntypedInt:
		return 64, true, true
	case types.Uint, types.Uint64, types.Uintptr:
		return 64, false, true
	case types.Int32, types.UntypedRune:
		return 32, true, true
	case types.Uint32:
		return 32, false, true
	case types.Int16:
		return 16, true, true
	case types.Uint16:
		return 16, false, true
	case types.Int8:
		return 8, true, true
	case types.Uint8:
		return 8, false, true
	}
	return 0, false, false
}

func intType(t types.Type) (w int, signed bool, ok bool) {
	b, isb := t.Underlying().(*types.Basic)
	if !isb {
		return 0, false, false
	}
	return basicWidth(b)
}

func isString(t types.Type) bool {
	b, ok := t.Underlying().(*types.Basic)
	return ok && (b.Kind() == types.String || b.Kind() == types.UntypedString)
}

func isFloat(t types.Type) bool {
	b, ok := t.Underlying().(*types.Basic)
	return ok && b.Info()&(types.IsFloat|types.IsComplex) != 0
}

func (in *Interp) sizeof(t types.Type) int {
	in.mu.Lock()
	if n, ok := in.sizes[t]; ok {
		in.mu.Unlock()
		return n
	}
	in.mu.Unlock()
	var n int
	switch u := t.Underlying().(type) {
	case *types.Struct:
		for i := 0; i < u.NumFields(); i++ {
			n += in.sizeof(u.Field(i).Type())
		}
	case *types.Array:
		n = int(u.Len()) * in.sizeof(u.Elem())
	case *types.Tuple:
		for i := 0; i < u.Len(); i++ {
			n += in.sizeof(u.At(i).Type())
		}
	default:
		n = 1
	}
	in.mu.Lock()
	in.sizes[t] = n
	in.mu.Unlock()
	return n
}

func (in *Interp) fieldOffset(st *types.Struct, idx int) int {
	off := 0
	for i := 0; i < idx; i++ {
		off += in.sizeof(st.Field(i).Type())
	}
	return off
}

// zeroVal returns the zero register value of a type.
func (r *Run) zeroVal(t types.Type) Value {
	switch u := t.Underlying().(type) {
	case *types.Basic:
		if w, _, ok := basicWidth(u); ok {
			return r.ts.Const(0, w)
		}
		if isString(t) {
			return Str{}
		}
		if u.Kind() == types.UnsafePointer {
			return Ptr{}
		}
		if u.Kind() == types.UntypedNil {
			return Ptr{}
		}
		return Opaque{"zero of " + t.String()}
	case *types.Pointer:
		return Ptr{}
	case *types.Slice:
		return Slice{Len: r.ts.Const(0, 64), Cap: r.ts.Const(0, 64)}
	case *types.Interface:
		return Iface{}
	case *types.Map:
		return MapRef{}
	case *types.Chan:
		return ChanRef{}
	case *types.Signature:
		return Closure{}
	case *types.Struct:
		a := &Agg{E: make([]Value, u.NumFields())}
		for i := range a.E {
			a.E[i] = r.zeroVal(u.Field(i).Type())
		}
		return a
	case *types.Array:
		a := &Agg{E: make([]Value, int(u.Len()))}
		if len(a.E) > 0 {
			z := r.zeroVal(u.Elem())
			for i := range a.E {
				a.E[i] = z
			}
		}
		return a
	case *types.Tuple:
		a := &Agg{E: make([]Value, u.Len())}
		for i := range a.E {
			a.E[i] = r.zeroVal(u.At(i).Type())
		}
		return a
	}
	return Opaque{"zero of " + t.String()}
}

// zeroCells returns the flattened zero cells of a type.
func (r *Run) zeroCells(t types.Type) []Value {
	var out []Value
	r.flatten(r.zeroVal(t), t, &out)
	return out
}

func (r *Run) flatten(v Value, t types.Type, out *[]Value) {
	switch u := t.Underlying().(type) {
	case *types.Struct:
		a, ok := v.(*Agg)
		if !ok {
			// opaque struct: fill
			n := r.in.sizeof(t)
			for i := 0; i < n; i++ {
				*out = append(*out, v)
			}
			return
		}
		for i := 0; i < u.NumFields(); i++ {
			r.flatten(a.E[i], u.Field(i).Type(), out)
		}
	case *types.Array:
		a, ok := v.(*Agg)
		if !ok {
			n := r.in.sizeof(t)
			for i := 0; i < n; i++ {
				*out = append(*out, v)
			}
			return
		}
		for i := 0; i < int(u.Len()); i++ {
			r.flatten(a.E[i], u.Elem(), out)
		}
	default:
		*out = append(*out, v)
	}
}

// unflatten builds a register value of type t from cells produced by get(i).
func (r *Run) unflatten(t types.Type, get func(i int) Value, base int) Value {
	switch u := t.Underlying().(type) {
	case *types.Struct:
		a := &Agg{E: make([]Value, u.NumFields())}
		off := base
		for i := range a.E {
			ft := u.Field(i).Type()
			a.E[i] = r.unflatten(ft, get, off)
			off += r.in.sizeof(ft)
		}
		return a
	case *types.Array:
		n := int(u.Len())
		a := &Agg{E: make([]Value, n)}
		es := r.in.sizeof(u.Elem())
		for i := 0; i < n; i++ {
			a.E[i] = r.unflatten(u.Elem(), get, base+i*es)
		}
		return a
	default:
		return get(base)
	}
}

func sortedUnique(xs []int) []int {
	sort.Ints(xs)
	out := xs[:0]
	for i, x := range xs {
		if i == 0 || x != xs[i-1] {
			out = append(out, x)
		}
	}
	return out
}

// reach collects the IDs of all heap objects reachable from v.
func (p *Path) reach(v Value, seen map[int]bool, depth int) {
	if depth > 200 {
		return
	}
	visitObj := func(id int) {
		if id == 0 || seen[id] {
			return
		}
		seen[id] = true
		o := p.obj(id)
		if o.IsMap {
			for _, k := range o.Keys {
				p.reach(k, seen, depth+1)
			}
			for _, x := range o.Vals {
				p.reach(x, seen, depth+1)
			}
			return
		}
		if o.Dense != nil {
			for _, c := range o.Dense {
				if _, isTerm := c.(*Term); !isTerm && c != nil {
					p.reach(c, seen, depth+1)
				}
			}
		} else {
			for _, c := range o.Sparse {
				if _, isTerm := c.(*Term); !isTerm && c != nil {
					p.reach(c, seen, depth+1)
				}
			}
			for _, c := range o.Zero {
				if _, isTerm := c.(*Term); !isTerm && c != nil {
					p.reach(c, seen, depth+1)
				}
			}
		}
	}
	switch x := v.(type) {
	case Ptr:
		visitObj(x.Obj)
	case Slice:
		visitObj(x.P.Obj)
	case Str:
		if x.IsObj {
			visitObj(x.P.Obj)
		}
	case Iface:
		if x.V != nil {
			p.reach(x.V, seen, depth+1)
		}
	case *Agg:
		for _, e := range x.E {
			p.reach(e, seen, depth+1)
		}
	case Closure:
		for _, b := range x.Binds {
			p.reach(b, seen, depth+1)
		}
	case MapRef:
		visitObj(x.Obj)
	case ChanRef:
		visitObj(x.Obj)
	}
}
