package main

import (
	"fmt"
	"go/types"
	"hash/crc32"
	"hash/crc64"
	"strings"

	"golang.org/x/tools/go/ssa"
)

func (r *Run) intrinsic(fn *ssa.Function, name string) (intrinsicFn, bool) {
	if h, ok := r.intrCache[fn]; ok {
		return h, h != nil
	}
	var h intrinsicFn
	short := fn.Name()
	if fn.Signature.Recv() == nil && strings.HasPrefix(short, "v") {
		if f, ok := harnessIntrinsics[short]; ok {
			h = f
		}
	}
	if h == nil {
		if f, ok := libStubs[name]; ok {
			h = f
		}
	}
	if h == nil && fn.Pkg != nil {
		pp := fn.Pkg.Pkg.Path()
		if pp == "github.com/ulikunitz/xz/internal/xlog" {
			h = stubZero
		}
		// package initialisers of packages we do not interpret
		if short == "init" && fn.Signature.Recv() == nil && fn.Synthetic != "" && !initWhitelisted(pp) {
			h = stubZero
		}
	}
	r.intrCache[fn] = h
	return h, h != nil
}

func initWhitelisted(pp string) bool {
	if strings.HasPrefix(pp, "github.com/ulikunitz/xz") {
		return !strings.HasSuffix(pp, "/internal/xlog") && !strings.HasSuffix(pp, "/internal/randtxt")
	}
	switch pp {
	case "errors", "io", "bytes", "bufio", "io/fs", "internal/oserror", "os", "path/filepath", "strings", "hash", "syscall", "internal/poll", "unicode/utf8", "strconv":
		return true
	}
	return false
}

func stubZero(p *Path, fn *ssa.Function, args []Value) (Value, bool) {
	rs := fn.Signature.Results()
	switch rs.Len() {
	case 0:
		return nil, true
	case 1:
		return p.run.zeroVal(rs.At(0).Type()), true
	}
	return p.run.zeroVal(rs), true
}

func (p *Path) nondet(name string, w int) *Term {
	r := p.run
	k := 0
	for _, nd := range p.nondets {
		if strings.HasPrefix(nd.Name, name) && len(nd.Name) > len(name) && nd.Name[len(name)] == '#' {
			k++
		}
	}
	name = fmt.Sprintf("%s#%d", name, k)
	var t *Term
	if r.concrete {
		t = r.ts.Const(r.nondetSrc(name, w), w)
	} else {
		t = r.ts.Var(name, w)
	}
	p.nondets = append(p.nondets, nondetRec{Name: name, T: t})
	return t
}

func (p *Path) argStr(v Value) string {
	s, ok := v.(Str)
	if !ok || s.IsObj {
		return "?"
	}
	return s.S
}

func nondetOf(w int) intrinsicFn {
	return func(p *Path, fn *ssa.Function, args []Value) (Value, bool) {
		return p.nondet(p.argStr(args[0]), w), true
	}
}

var harnessIntrinsics map[string]intrinsicFn

func init() {
	harnessIntrinsics = map[string]intrinsicFn{
		"vNondetBool": func(p *Path, fn *ssa.Function, args []Value) (Value, bool) {
			t := p.nondet(p.argStr(args[0]), 1)
			return p.ts().Eq(t, p.ts().Const(1, 1)), true
		},
		"vNondetU8":  nondetOf(8),
		"vNondetU16": nondetOf(16),
		"vNondetU32": nondetOf(32),
		"vNondetU64": nondetOf(64),
		"vNondetI64": nondetOf(64),
		"vNondetInt": nondetOf(64),
		"vNondetBytes": func(p *Path, fn *ssa.Function, args []Value) (Value, bool) {
			name := p.argStr(args[0])
			n := int(p.concretize(p.term(args[1]), nil))
			ts := p.ts()
			o := p.newObj(n, []Value{ts.Const(0, 8)}, "nondet:"+name)
			for i := 0; i < n; i++ {
				o.set(i, p.nondet(fmt.Sprintf("%s[%d]", name, i), 8))
			}
			ln := ts.Const(uint64(n), 64)
			return Slice{P: Ptr{Obj: o.ID}, Len: ln, Cap: ln}, true
		},
		"vAssume": func(p *Path, fn *ssa.Function, args []Value) (Value, bool) {
			c := p.term(args[0])
			ok, m := p.feasible(c)
			if !ok {
				p.end("assume-false", "")
				return nil, true
			}
			p.assume(c)
			p.model = m
			return nil, true
		},
		"vAssert": func(p *Path, fn *ssa.Function, args []Value) (Value, bool) {
			p.doAssert(p.term(args[0]), p.argStr(args[1]))
			return nil, true
		},
		"vReach": func(p *Path, fn *ssa.Function, args []Value) (Value, bool) {
			p.run.reached[p.argStr(args[0])]++
			return nil, true
		},
		"vUnwind": func(p *Path, fn *ssa.Function, args []Value) (Value, bool) {
			p.unwind = int(p.term(args[0]).Val)
			return nil, true
		},
		"vEndPath": func(p *Path, fn *ssa.Function, args []Value) (Value, bool) {
			p.end("endpath", "")
			return nil, true
		},
		"vPanicOK": func(p *Path, fn *ssa.Function, args []Value) (Value, bool) {
			p.panicOK = p.term(args[0]).IsTrue()
			return nil, true
		},
		"vObs": func(p *Path, fn *ssa.Function, args []Value) (Value, bool) {
			t := p.term(args[1])
			if t.IsConst() {
				p.obs = append(p.obs, obsRec{p.argStr(args[0]), t.Val})
			}
			return nil, true
		},
		"vConcretize": func(p *Path, fn *ssa.Function, args []Value) (Value, bool) {
			t := p.term(args[0])
			v := p.concretize(t, nil)
			return p.ts().Const(v, t.W), true
		},
		"vSubst": func(p *Path, fn *ssa.Function, args []Value) (Value, bool) {
			name := p.argStr(args[0])
			ifc, ok := args[1].(Iface)
			if !ok {
				p.unsup("vSubst: second argument must be a function value")
			}
			cl, ok := ifc.V.(Closure)
			if !ok {
				p.unsup("vSubst: second argument must be a function value")
			}
			full := p.run.resolveFuncName(name)
			if full == "" {
				p.end("stale", "vSubst: no function "+name)
				return nil, true
			}
			p.subst[full] = cl
			return nil, true
		},
		"vUnsubst": func(p *Path, fn *ssa.Function, args []Value) (Value, bool) {
			full := p.run.resolveFuncName(p.argStr(args[0]))
			delete(p.subst, full)
			return nil, true
		},
		// vOpaqueLen(b, n): a slice over b's storage whose length is the (symbolic) n; only len() may be used
		"vOpaqueLen": func(p *Path, fn *ssa.Function, args []Value) (Value, bool) {
			s := args[0].(Slice)
			n := p.term(args[1])
			return Slice{P: s.P, Len: n, Cap: n}, true
		},
		// vShards()/vShardIdx(): the runner may split a harness into independent shards (parallel runs)
		"vShards": func(p *Path, fn *ssa.Function, args []Value) (Value, bool) {
			n := p.run.shards
			if n < 1 || p.run.concrete {
				n = 1
			}
			return p.ts().Const(uint64(n), 64), true
		},
		"vShardIdx": func(p *Path, fn *ssa.Function, args []Value) (Value, bool) {
			k := p.run.shard
			if p.run.shards < 1 || p.run.concrete {
				k = 0
			}
			return p.ts().Const(uint64(k), 64), true
		},
		// vForbidGlobalWrites(): from now on a store by library code to a package-level variable, or to
		// an object created during package initialisation, is a violation (C14)
		"vForbidGlobalWrites": func(p *Path, fn *ssa.Function, args []Value) (Value, bool) {
			p.run.forbidGlobalWrites = true
			return nil, true
		},
		// vSharedObjects(a, b): number of heap objects created after package initialisation that are
		// reachable from both a and b
		"vSharedObjects": func(p *Path, fn *ssa.Function, args []Value) (Value, bool) {
			ra, rb := map[int]bool{}, map[int]bool{}
			p.reach(args[0], ra, 0)
			p.reach(args[1], rb, 0)
			n := 0
			for id := range ra {
				if rb[id] {
					o := p.obj(id)
					if o.Epoch == -1 || o.Global {
						continue
					}
					n++
					p.run.note("shared object %d (%s)", id, o.Name)
				}
			}
			return p.ts().Const(uint64(n), 64), true
		},
		"vThorough": func(p *Path, fn *ssa.Function, args []Value) (Value, bool) {
			return p.ts().Bool(p.run.thorough), true
		},
		"vIsSym": func(p *Path, fn *ssa.Function, args []Value) (Value, bool) {
			return p.ts().Bool(!p.run.concrete), true
		},
		// vUF64(name, a, b): uninterpreted 64-bit function of two 64-bit values
		"vUF64": func(p *Path, fn *ssa.Function, args []Value) (Value, bool) {
			return p.ufApply("uf_"+p.argStr(args[0]), 64, p.term(args[1]), p.term(args[2])), true
		},
		// vProbIndex(base *prob-ish, p *prob) int: cell distance between two pointers, -1 if different objects
		"vPtrDiff": func(p *Path, fn *ssa.Function, args []Value) (Value, bool) {
			a, b := p.resolve(args[0].(Ptr)), p.resolve(args[1].(Ptr))
			ts := p.ts()
			if a.Obj != b.Obj || a.Obj == 0 {
				return ts.Const(^uint64(0), 64), true
			}
			d := ts.Const(uint64(int64(b.Off-a.Off)), 64)
			if b.Sym != nil {
				d = ts.Add(d, b.Sym)
			}
			if a.Sym != nil {
				d = ts.Sub(d, a.Sym)
			}
			return d, true
		},
		// vPtrKey(p): a 64-bit identity of the addressed cell: object id << 32 + cell offset (symbolic offsets included)
		"vPtrKey": func(p *Path, fn *ssa.Function, args []Value) (Value, bool) {
			a := p.resolve(args[0].(Ptr))
			ts := p.ts()
			k := ts.Const(uint64(uint32(int32(a.Obj)))<<32+uint64(uint32(a.Off)), 64)
			if a.Sym != nil {
				k = ts.Add(k, a.Sym)
			}
			return k, true
		},
		// vSameObj(a, b unsafe-ish pointers) bool
		"vObjID": func(p *Path, fn *ssa.Function, args []Value) (Value, bool) {
			switch a := args[0].(type) {
			case Ptr:
				return p.ts().Const(uint64(int64(a.Obj)), 64), true
			case Slice:
				return p.ts().Const(uint64(int64(a.P.Obj)), 64), true
			case Iface:
				if pp, ok := a.V.(Ptr); ok {
					return p.ts().Const(uint64(int64(pp.Obj)), 64), true
				}
				if pp, ok := a.V.(Slice); ok {
					return p.ts().Const(uint64(int64(pp.P.Obj)), 64), true
				}
			}
			return p.ts().Const(0, 64), true
		},
	}
}

// ufApply applies an uninterpreted function; in concrete mode a
// deterministic hash stands in for it.
func (p *Path) ufApply(name string, w int, args ...*Term) *Term {
	allConst := true
	for _, a := range args {
		if !a.IsConst() {
			allConst = false
		}
	}
	if allConst && p.run.concrete {
		h := uint64(hashName(name)) * 0x9e3779b97f4a7c15
		for _, a := range args {
			h = (h ^ a.Val) * 0xff51afd7ed558ccd
			h ^= h >> 33
		}
		return p.ts().Const(h, w)
	}
	return p.ts().UF(name, w, args...)
}

func (r *Run) resolveFuncName(name string) string {
	// name is relative to the harness package, e.g. "(*rangeEncoder).EncodeBit" or "io.Copy"
	in := r.in
	try := func(pkg *ssa.Package, fname string) *ssa.Function {
		if pkg == nil {
			return nil
		}
		if strings.HasPrefix(fname, "(") {
			// method: (*T).M or (T).M
			end := strings.Index(fname, ")")
			tn := strings.TrimPrefix(fname[1:end], "*")
			ptr := strings.HasPrefix(fname[1:end], "*")
			mn := fname[end+2:]
			tm := pkg.Type(tn)
			if tm == nil {
				return nil
			}
			var T types.Type = tm.Type()
			if ptr {
				T = types.NewPointer(T)
			}
			return in.prog.LookupMethod(T, pkg.Pkg, mn)
		}
		return pkg.Func(fname)
	}
	if strings.HasPrefix(name, "(") || !strings.Contains(name, ".") {
		if f := try(in.pkgs[r.pkgPath], name); f != nil {
			return f.String()
		}
		return ""
	}
	// pkg.Func or (pkg.T).M forms: "io.Copy", "os.(*File).Close"
	i := strings.Index(name, ".")
	pkgName, rest := name[:i], name[i+1:]
	for path, pkg := range in.pkgs {
		if path == pkgName || strings.HasSuffix(path, "/"+pkgName) {
			if f := try(pkg, rest); f != nil {
				return f.String()
			}
		}
	}
	return ""
}

func (p *Path) doAssert(c *Term, label string) {
	r := p.run
	st := r.stat(label)
	st.Checked++
	r.obligations++
	if r.concrete && c.IsConst() {
		p.obs = append(p.obs, obsRec{"assert:" + label, c.Val})
	}
	if c.IsTrue() {
		st.Trivial++
		r.discharged++
		r.trivial++
		return
	}
	ts := p.ts()
	if c.IsFalse() {
		st.Sat++
		r.recordViolation(p, label, "assert", p.where())
		p.end("assert-failed", label)
		return
	}
	neg := ts.BNot(c)
	q := p.sliceFor(neg)
	r.solver.obligation = true
	res, m := r.solver.Check(q, true)
	r.solver.obligation = false
	switch res {
	case Unsat:
		st.Unsat++
		r.discharged++
	case Sat:
		st.Sat++
		k := *p
		k.pc = append(append([]*Term(nil), p.pc...), neg)
		k.model = p.mergeModel(m)
		k.unknowns = p.unknowns
		r.recordViolation(&k, label, "assert", p.where())
	default:
		st.Unknown++
		r.inconclusive = append(r.inconclusive, "unknown: assert "+label+" at "+p.where())
	}
	// continue under the asserted condition
	ok, m2 := p.feasible(c)
	if !ok {
		p.end("assert-failed", label)
		return
	}
	p.assume(c)
	p.model = m2
}

// ---------------------------------------------------------------------
// library stubs

var libStubs map[string]intrinsicFn

func newErr(p *Path, msg string) Value {
	// *errors.errorString{s: msg}
	pkg := p.run.in.pkgs["errors"]
	if pkg == nil {
		p.unsup("package errors not loaded")
	}
	tn := pkg.Type("errorString")
	T := tn.Type()
	ptr := p.allocType(T, "error:"+msg)
	p.storeCell(ptr, 0, Str{S: msg})
	return Iface{T: types.NewPointer(T), V: ptr}
}

func init() {
	libStubs = map[string]intrinsicFn{
		"fmt.Errorf": func(p *Path, fn *ssa.Function, args []Value) (Value, bool) {
			return newErr(p, "fmt.Errorf: "+p.argStr(args[0])), true
		},
		"fmt.Sprintf": func(p *Path, fn *ssa.Function, args []Value) (Value, bool) {
			if s, ok := p.miniSprintf(args); ok {
				return Str{S: s}, true
			}
			return Str{S: "<" + p.argStr(args[0]) + ">"}, true
		},
		"fmt.Sprint":              func(p *Path, fn *ssa.Function, args []Value) (Value, bool) { return Str{S: "<sprint>"}, true },
		"fmt.Sprintln":            func(p *Path, fn *ssa.Function, args []Value) (Value, bool) { return Str{S: "<sprintln>"}, true },
		"fmt.Fprintf":             stubZero,
		"fmt.Fprintln":            stubZero,
		"fmt.Fprint":              stubZero,
		"fmt.Printf":              stubZero,
		"fmt.Println":             stubZero,
		"fmt.Print":               stubZero,
		"(*sync.Mutex).Lock":      stubZero,
		"(*sync.Mutex).Unlock":    stubZero,
		"(*sync.RWMutex).Lock":    stubZero,
		"(*sync.RWMutex).Unlock":  stubZero,
		"(*sync.RWMutex).RLock":   stubZero,
		"(*sync.RWMutex).RUnlock": stubZero,
		"(*sync.Pool).Put": func(p *Path, fn *ssa.Function, args []Value) (Value, bool) {
			ptr := args[0].(Ptr)
			key := fmt.Sprintf("%d:%d", ptr.Obj, ptr.Off)
			if ifc, ok := args[1].(Iface); ok && ifc.T == nil {
				return nil, true
			}
			if p.pools == nil {
				p.pools = map[string][]Value{}
			}
			p.pools[key] = append(p.pools[key], args[1])
			return nil, true
		},
		"(*sync.Pool).Get": func(p *Path, fn *ssa.Function, args []Value) (Value, bool) {
			ptr := args[0].(Ptr)
			key := fmt.Sprintf("%d:%d", ptr.Obj, ptr.Off)
			if l := p.pools[key]; len(l) > 0 {
				v := l[len(l)-1]
				p.pools[key] = l[:len(l)-1]
				return v, true
			}
			// New func() any is the last field of sync.Pool
			pt := fn.Signature.Recv().Type().Underlying().(*types.Pointer).Elem().Underlying().(*types.Struct)
			idx := -1
			for i := 0; i < pt.NumFields(); i++ {
				if pt.Field(i).Name() == "New" {
					idx = i
				}
			}
			if idx < 0 {
				p.unsup("sync.Pool without New field")
			}
			nv := p.loadCell(ptr, p.run.in.fieldOffset(pt, idx))
			cl, ok := nv.(Closure)
			if !ok || (cl.Fn == nil && cl.Bltn == "") {
				return Iface{}, true
			}
			return tailCall{cl: cl}, true
		},
		// sync.Map: a faithful sequential model (an ordered association list per map object)
		"(*sync.Map).Load": func(p *Path, fn *ssa.Function, args []Value) (Value, bool) {
			if i := p.syncMapFind(args[0].(Ptr), args[1]); i >= 0 {
				return &Agg{E: []Value{p.syncMaps[p.syncMapKey(args[0].(Ptr))][i].v, p.ts().True()}}, true
			}
			return &Agg{E: []Value{Iface{}, p.ts().False()}}, true
		},
		"(*sync.Map).Store": func(p *Path, fn *ssa.Function, args []Value) (Value, bool) {
			p.syncMapStore(args[0].(Ptr), args[1], args[2])
			return nil, true
		},
		"(*sync.Map).LoadOrStore": func(p *Path, fn *ssa.Function, args []Value) (Value, bool) {
			if i := p.syncMapFind(args[0].(Ptr), args[1]); i >= 0 {
				return &Agg{E: []Value{p.syncMaps[p.syncMapKey(args[0].(Ptr))][i].v, p.ts().True()}}, true
			}
			p.syncMapStore(args[0].(Ptr), args[1], args[2])
			return &Agg{E: []Value{args[2], p.ts().False()}}, true
		},
		"(*sync.Map).Delete": func(p *Path, fn *ssa.Function, args []Value) (Value, bool) {
			k := p.syncMapKey(args[0].(Ptr))
			if i := p.syncMapFind(args[0].(Ptr), args[1]); i >= 0 {
				l := p.syncMaps[k]
				p.syncMaps[k] = append(append([]syncKV(nil), l[:i]...), l[i+1:]...)
			}
			return nil, true
		},
		"(*sync.Once).Do": func(p *Path, fn *ssa.Function, args []Value) (Value, bool) {
			ptr := args[0].(Ptr)
			key := fmt.Sprintf("%d:%d", ptr.Obj, ptr.Off)
			if p.onceDone[key] {
				return nil, true
			}
			p.onceDone[key] = true
			// call f: push frame manually, pc advance handled by return
			return tailCall{cl: args[1].(Closure)}, true
		},
		"errors.Is": func(p *Path, fn *ssa.Function, args []Value) (Value, bool) {
			e, _ := args[0].(Iface)
			t, _ := args[1].(Iface)
			ts := p.ts()
			for depth := 0; depth < 8; depth++ {
				if e.T == nil {
					return ts.Bool(t.T == nil), true
				}
				eq := p.valueEq(e, t, nil)
				if eq.IsTrue() {
					return eq, true
				}
				// Unwrap via known wrapper layout: look for method Unwrap() error
				m := p.run.in.prog.LookupMethod(e.T, nil, "Unwrap")
				if m == nil {
					return eq, true
				}
				p.unsup("errors.Is through Unwrap")
			}
			return ts.False(), true
		},
		"hash/crc32.NewIEEE": func(p *Path, fn *ssa.Function, args []Value) (Value, bool) {
			return newDigest(p, "hash/crc32", 32), true
		},
		"hash/crc32.New": func(p *Path, fn *ssa.Function, args []Value) (Value, bool) {
			return newDigest(p, "hash/crc32", 32), true
		},
		"hash/crc64.New": func(p *Path, fn *ssa.Function, args []Value) (Value, bool) {
			return newDigest(p, "hash/crc64", 64), true
		},
		"hash/crc64.MakeTable": func(p *Path, fn *ssa.Function, args []Value) (Value, bool) {
			return Ptr{}, true
		},
		"hash/crc32.MakeTable": func(p *Path, fn *ssa.Function, args []Value) (Value, bool) {
			return Ptr{}, true
		},
		"(*hash/crc32.digest).Write": digestWrite(32),
		"(*hash/crc64.digest).Write": digestWrite(64),
		"hash/crc32.ChecksumIEEE": func(p *Path, fn *ssa.Function, args []Value) (Value, bool) {
			s := args[0].(Slice)
			return crcFold(p, 32, p.ts().Const(0, 32), s), true
		},
		"crypto/sha256.New": func(p *Path, fn *ssa.Function, args []Value) (Value, bool) {
			return newDigest(p, "crypto/sha256", 256), true
		},
		"(*crypto/sha256.digest).Write": digestWrite(256),
		"(*crypto/sha256.digest).Sum": func(p *Path, fn *ssa.Function, args []Value) (Value, bool) {
			// append 32 bytes derived from the 64-bit chained state
			d := args[0].(Ptr)
			st := p.shaState(d)
			ts := p.ts()
			var bs []*Term
			for i := 0; i < 4; i++ {
				w := p.ufApply("sha256_fin", 64, st, ts.Const(uint64(i), 64))
				for k := 7; k >= 0; k-- {
					bs = append(bs, ts.Extract(w, k*8+7, k*8))
				}
			}
			o := p.newObj(32, []Value{ts.Const(0, 8)}, "sha256sum")
			for i, b := range bs {
				o.set(i, b)
			}
			n := ts.Const(32, 64)
			tmp := Slice{P: Ptr{Obj: o.ID}, Len: n, Cap: n}
			return p.appendBuiltinRaw(args[1].(Slice), tmp, 1), true
		},
		"(*crypto/sha256.digest).Reset": func(p *Path, fn *ssa.Function, args []Value) (Value, bool) {
			p.setShaState(args[0].(Ptr), p.ts().Const(0, 64))
			return nil, true
		},
		"(*crypto/sha256.digest).Size":      func(p *Path, fn *ssa.Function, args []Value) (Value, bool) { return p.ts().Const(32, 64), true },
		"(*crypto/sha256.digest).BlockSize": func(p *Path, fn *ssa.Function, args []Value) (Value, bool) { return p.ts().Const(64, 64), true },
		"os.Exit": func(p *Path, fn *ssa.Function, args []Value) (Value, bool) {
			p.end("exit", fmt.Sprintf("os.Exit(%v)", args[0]))
			return nil, true
		},
		"internal/bytealg.IndexByte": func(p *Path, fn *ssa.Function, args []Value) (Value, bool) {
			s := args[0].(Slice)
			n := int(p.concretize(s.Len, nil))
			c := p.term(args[1])
			ts := p.ts()
			res := ts.Const(^uint64(0), 64)
			for i := n - 1; i >= 0; i-- {
				res = ts.Ite(ts.Eq(p.term(p.loadCell(s.P, i)), c), ts.Const(uint64(i), 64), res)
			}
			return res, true
		},
		"internal/bytealg.IndexByteString": func(p *Path, fn *ssa.Function, args []Value) (Value, bool) {
			s := args[0].(Str)
			bs, ok := p.strBytes(s)
			if !ok {
				p.unsup("IndexByteString on symbolic-length string")
			}
			c := p.term(args[1])
			ts := p.ts()
			res := ts.Const(^uint64(0), 64)
			for i := len(bs) - 1; i >= 0; i-- {
				res = ts.Ite(ts.Eq(bs[i], c), ts.Const(uint64(i), 64), res)
			}
			return res, true
		},
		"internal/godebug.New": stubZero,
		"(*internal/godebug.Setting).Value": func(p *Path, fn *ssa.Function, args []Value) (Value, bool) {
			return Str{}, true
		},
		"(*internal/godebug.Setting).IncNonDefault": stubZero,
		"runtime.SetFinalizer":                      stubZero,
		"runtime.KeepAlive":                         stubZero,
		"internal/race.Enabled":                     stubZero,
	}
}

// digest objects: we keep the real dynamic type (so that interface
// invocations resolve) but hold the chained state in the first cell.
func newDigest(p *Path, pkgPath string, bits int) Value {
	pkg := p.run.in.pkgs[pkgPath]
	if pkg == nil {
		p.unsup("package %s not loaded", pkgPath)
	}
	T := pkg.Type("digest").Type()
	ptr := p.allocType(T, pkgPath+".digest")
	w := bits
	if w > 64 {
		w = 64
	}
	switch bits {
	case 32, 64:
		p.storeCell(ptr, 0, p.ts().Const(0, w))
	default:
		p.setShaState(ptr, p.ts().Const(0, 64))
	}
	if bits == 32 || bits == 64 {
		return Iface{T: types.NewPointer(T), V: ptr}
	}
	return Iface{T: types.NewPointer(T), V: ptr}
}

func (p *Path) shaState(d Ptr) *Term {
	// sha256.digest{h [8]uint32; x [64]byte; nx int; len uint64; is224 bool}: use cell "len" (index 8+64+1)
	v := p.loadCell(d, 8+64+1)
	return p.term(v)
}

func (p *Path) setShaState(d Ptr, t *Term) {
	p.storeCell(d, 8+64+1, t)
}

var crc64ECMA = crc64.MakeTable(crc64.ECMA)

func crcFold(p *Path, bits int, st *Term, s Slice) *Term {
	n := int(p.concretize(s.Len, nil))
	ts := p.ts()
	// concrete fast path
	allConst := st.IsConst()
	buf := make([]byte, n)
	cells := make([]*Term, n)
	for i := 0; i < n; i++ {
		cells[i] = p.term(p.loadCell(s.P, i))
		if cells[i].IsConst() {
			buf[i] = byte(cells[i].Val)
		} else {
			allConst = false
		}
	}
	_ = allConst
	// A constant state is advanced concretely over the maximal constant
	// prefix (real CRC); from the first symbolic byte on the state is an
	// uninterpreted chain. Both sides of a comparison see the same byte
	// sequence, hence the same split, whatever the chunking of the writes.
	i := 0
	if bits != 256 && st.IsConst() {
		for i < n && cells[i].IsConst() {
			i++
		}
		if i > 0 {
			if bits == 32 {
				st = ts.Const(uint64(crc32.Update(uint32(st.Val), crc32.IEEETable, buf[:i])), 32)
			} else {
				st = ts.Const(crc64.Update(st.Val, crc64ECMA, buf[:i]), 64)
			}
		}
	}
	name := fmt.Sprintf("crc%d_step", bits)
	w := bits
	if bits == 256 {
		name = "sha256_step"
		w = 64
	}
	for ; i < n; i++ {
		st = p.ufApply(name, w, st, cells[i])
	}
	return st
}

func digestWrite(bits int) intrinsicFn {
	return func(p *Path, fn *ssa.Function, args []Value) (Value, bool) {
		d := args[0].(Ptr)
		s := args[1].(Slice)
		if bits == 256 {
			p.setShaState(d, crcFold(p, 256, p.shaState(d), s))
		} else {
			st := p.term(p.loadCell(d, 0))
			p.storeCell(d, 0, crcFold(p, bits, st, s))
		}
		return &Agg{E: []Value{s.Len, Iface{}}}, true
	}
}

// appendBuiltinRaw appends the elements of e to s (stride cells each).
func (p *Path) appendBuiltinRaw(s, e Slice, stride int) Value {
	ts := p.ts()
	n := int(p.concretize(e.Len, nil))
	ln := int(p.concretize(s.Len, nil))
	cp := int(p.concretize(s.Cap, nil))
	cells := make([]Value, n*stride)
	for i := range cells {
		cells[i] = p.loadCell(e.P, i)
	}
	if ln+n <= cp && s.P.Obj != 0 {
		for i, v := range cells {
			p.storeCell(s.P, ln*stride+i, v)
		}
		return Slice{P: s.P, Len: ts.Const(uint64(ln+n), 64), Cap: s.Cap}
	}
	newCap := 2*cp + n
	o := p.newObj(newCap*stride, []Value{ts.Const(0, 8)}, "append")
	for i := 0; i < ln*stride; i++ {
		o.set(i, p.loadCell(s.P, i))
	}
	for i, v := range cells {
		o.set(ln*stride+i, v)
	}
	return Slice{P: Ptr{Obj: o.ID}, Len: ts.Const(uint64(ln+n), 64), Cap: ts.Const(uint64(newCap), 64)}
}

// miniSprintf formats concrete integer, string, bool and rune arguments for
// the verbs %d %s %q %c %t %v %x; anything else (or a symbolic argument)
// makes the caller fall back to an opaque string.
func (p *Path) miniSprintf(args []Value) (string, bool) {
	fs, ok := args[0].(Str)
	if !ok || fs.IsObj {
		return "", false
	}
	var vals []Value
	if len(args) > 1 {
		sl, ok := args[1].(Slice)
		if !ok {
			return "", false
		}
		if sl.P.Obj != 0 {
			if !sl.Len.IsConst() {
				return "", false
			}
			for i := 0; i < int(sl.Len.Val); i++ {
				vals = append(vals, p.loadCell(sl.P, i))
			}
		}
	}
	var out strings.Builder
	f := fs.S
	k := 0
	for i := 0; i < len(f); i++ {
		if f[i] != '%' {
			out.WriteByte(f[i])
			continue
		}
		i++
		if i >= len(f) {
			return "", false
		}
		if f[i] == '%' {
			out.WriteByte('%')
			continue
		}
		if k >= len(vals) {
			return "", false
		}
		ifc, ok := vals[k].(Iface)
		k++
		if !ok {
			return "", false
		}
		switch f[i] {
		case 'd', 'x', 'c', 't', 'v', 's', 'q':
		default:
			return "", false
		}
		switch v := ifc.V.(type) {
		case *Term:
			if !v.IsConst() {
				return "", false
			}
			_, signed, _ := intType(ifc.T)
			x := v.Val
			var n int64 = int64(x)
			if signed && v.W < 64 && x&(1<<uint(v.W-1)) != 0 {
				n = int64(x) - (1 << uint(v.W))
			}
			switch f[i] {
			case 'd', 'v':
				if v.W == 1 && f[i] == 'v' {
					fmt.Fprintf(&out, "%t", x == 1)
				} else if signed {
					fmt.Fprintf(&out, "%d", n)
				} else {
					fmt.Fprintf(&out, "%d", x)
				}
			case 'x':
				fmt.Fprintf(&out, "%x", x)
			case 'c':
				out.WriteRune(rune(x))
			case 't':
				fmt.Fprintf(&out, "%t", x == 1)
			default:
				return "", false
			}
		case Str:
			if v.IsObj {
				return "", false
			}
			switch f[i] {
			case 's', 'v':
				out.WriteString(v.S)
			case 'q':
				fmt.Fprintf(&out, "%q", v.S)
			default:
				return "", false
			}
		default:
			return "", false
		}
	}
	if k != len(vals) {
		return "", false
	}
	return out.String(), true
}

type syncKV struct{ k, v Value }

func (p *Path) syncMapKey(ptr Ptr) string { return fmt.Sprintf("%d:%d", ptr.Obj, ptr.Off) }

func (p *Path) syncMapFind(m Ptr, key Value) int {
	for i, kv := range p.syncMaps[p.syncMapKey(m)] {
		eq := p.valueEq(kv.k, key, nil)
		if eq.IsTrue() {
			return i
		}
		if !eq.IsFalse() {
			p.unsup("sync.Map with a symbolic key")
		}
	}
	return -1
}

func (p *Path) syncMapStore(m Ptr, key, val Value) {
	k := p.syncMapKey(m)
	if p.syncMaps == nil {
		p.syncMaps = map[string][]syncKV{}
	}
	if i := p.syncMapFind(m, key); i >= 0 {
		l := append([]syncKV(nil), p.syncMaps[k]...)
		l[i].v = val
		p.syncMaps[k] = l
		return
	}
	p.syncMaps[k] = append(append([]syncKV(nil), p.syncMaps[k]...), syncKV{key, val})
}
