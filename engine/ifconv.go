package main

import (
	"go/token"
	"os"

	"golang.org/x/tools/go/ssa"
)

// If-conversion: a branch on a symbolic condition whose two sides are
// side-effect-free and re-join at one block is evaluated on both sides and
// merged into ite-terms instead of forking the path. This is sound because
// the speculatively executed instructions cannot store, allocate, call or
// panic (anything that could fork or raise aborts the attempt, and the path
// then forks as usual). It removes the path blow-up of && / || chains and of
// "if cond { flag = false }" patterns in harness and library code alike.

type impureAbort struct{}

var noIfConv = os.Getenv("VCHECK_NOIFCONV") != ""

type regionExit struct {
	block *ssa.BasicBlock
	pred  *ssa.BasicBlock
	cond  *Term
}

func pureInstr(ins ssa.Instruction) bool {
	switch x := ins.(type) {
	case *ssa.DebugRef:
		return true
	case *ssa.BinOp:
		switch x.Op {
		case token.QUO, token.REM:
			return false
		}
		return true
	case *ssa.UnOp:
		return x.Op != token.ARROW
	case *ssa.Convert, *ssa.ChangeType, *ssa.FieldAddr, *ssa.Field, *ssa.IndexAddr, *ssa.Index, *ssa.Extract:
		return true
	}
	return false
}

func pureBlock(b *ssa.BasicBlock) bool {
	if len(b.Preds) != 1 {
		return false
	}
	n := len(b.Instrs)
	if n == 0 || n > 24 {
		return false
	}
	for _, ins := range b.Instrs[:n-1] {
		if !pureInstr(ins) {
			return false
		}
	}
	switch b.Instrs[n-1].(type) {
	case *ssa.Jump, *ssa.If:
		return true
	}
	return false
}

// execPure executes one side-effect-free instruction in pure mode.
func (p *Path) execPure(f *Frame, ins ssa.Instruction) {
	switch x := ins.(type) {
	case *ssa.DebugRef:
	case *ssa.BinOp:
		p.set(x, p.binop(x.Op, p.eval(x.X), p.eval(x.Y), x.X.Type(), x.Y.Type()))
	case *ssa.UnOp:
		p.set(x, p.unop(x))
	case *ssa.Convert:
		p.set(x, p.convert(p.eval(x.X), x.X.Type(), x.Type()))
	case *ssa.ChangeType:
		p.set(x, p.eval(x.X))
	default:
		// FieldAddr, Field, IndexAddr, Index, Extract: reuse the main dispatcher
		save := f.pc
		for i, in2 := range f.block.Instrs {
			if in2 == ins {
				f.pc = i
				break
			}
		}
		p.step()
		f.pc = save
	}
}

func (p *Path) evalRegion(f *Frame, x, pred *ssa.BasicBlock, cond *Term, depth int, out *[]regionExit) {
	if depth > 6 || !pureBlock(x) {
		*out = append(*out, regionExit{x, pred, cond})
		return
	}
	saveB, savePrev, savePC := f.block, f.prev, f.pc
	f.block, f.prev = x, pred
	n := len(x.Instrs)
	for _, ins := range x.Instrs[:n-1] {
		p.execPure(f, ins)
	}
	term := x.Instrs[n-1]
	f.block, f.prev, f.pc = saveB, savePrev, savePC
	ts := p.ts()
	switch t := term.(type) {
	case *ssa.Jump:
		p.evalRegion(f, x.Succs[0], x, cond, depth+1, out)
	case *ssa.If:
		c := p.term(p.eval(t.Cond))
		switch {
		case c.IsTrue():
			p.evalRegion(f, x.Succs[0], x, cond, depth+1, out)
		case c.IsFalse():
			p.evalRegion(f, x.Succs[1], x, cond, depth+1, out)
		default:
			p.evalRegion(f, x.Succs[0], x, ts.BAnd(cond, c), depth+1, out)
			p.evalRegion(f, x.Succs[1], x, ts.BAnd(cond, ts.BNot(c)), depth+1, out)
		}
	}
}

// tryIfConvert returns true when the branch was merged; the frame then
// stands behind the phis of the join block.
func (p *Path) tryIfConvert(f *Frame, c *Term) (done bool) {
	if noIfConv || p.run.concrete {
		return false
	}
	b := f.block
	tb, fb := b.Succs[0], b.Succs[1]
	// cheap static pre-test: at least one side must be a pure block
	if !pureBlock(tb) && !pureBlock(fb) {
		return false
	}
	p.pure = true
	saveSteps := p.steps
	saveBlock, savePrev, savePC := f.block, f.prev, f.pc
	defer func() {
		p.pure = false
		if e := recover(); e != nil {
			// an abort can strike in the middle of a speculatively executed block:
			// put the frame back to the branch instruction
			f.block, f.prev, f.pc = saveBlock, savePrev, savePC
			if _, ok := e.(impureAbort); ok {
				done = false
				p.steps = saveSteps
				return
			}
			panic(e)
		}
	}()
	ts := p.ts()
	var exits []regionExit
	p.evalRegion(f, tb, b, c, 0, &exits)
	p.evalRegion(f, fb, b, ts.BNot(c), 0, &exits)
	j := exits[0].block
	for _, e := range exits[1:] {
		if e.block != j {
			return false
		}
	}
	// the join must not be one of the direct successors reached only trivially on both sides
	var phis []*ssa.Phi
	for _, ins := range j.Instrs {
		ph, ok := ins.(*ssa.Phi)
		if !ok {
			break
		}
		phis = append(phis, ph)
	}
	vals := make([]Value, len(phis))
	for k, ph := range phis {
		var acc Value
		for i := len(exits) - 1; i >= 0; i-- {
			e := exits[i]
			idx := -1
			for pi, pr := range j.Preds {
				if pr == e.pred {
					idx = pi
					break
				}
			}
			if idx < 0 {
				return false
			}
			v := p.eval(ph.Edges[idx])
			if acc == nil {
				acc = v
				continue
			}
			if sameValue(acc, v) {
				continue
			}
			at, ok1 := acc.(*Term)
			vt, ok2 := v.(*Term)
			if !ok1 || !ok2 || at.W != vt.W {
				return false
			}
			acc = ts.Ite(e.cond, vt, at)
		}
		vals[k] = acc
	}
	for k, ph := range phis {
		p.set(ph, vals[k])
	}
	f.prev = exits[0].pred
	f.block = j
	f.pc = len(phis)
	p.run.ifconv++
	return true
}
