package main

import (
	"fmt"
	"go/types"
	"io"
	"os"
	"sort"
	"strings"
	"time"

	"golang.org/x/tools/go/ssa"
)

// Run is one execution of one harness (symbolic or concrete).
type Run struct {
	in                 *Interp
	ts                 *TermStore
	solver             *Solver
	stats              *SolverStats
	base               map[int]*Object
	globals            map[*ssa.Global]int
	work               []*Path
	nextPath           int
	epochs             int
	maxSteps           int
	maxEnum            int
	maxPaths           int
	defUnwind          int
	steps              int
	forks              int
	ifconv             int
	forbidGlobalWrites bool
	varCache           map[int]map[int]bool
	noSlicing          bool
	fnUsed             map[string]bool
	notes              []string
	traceW             io.Writer
	finalResult        Value
	intrCache          map[*ssa.Function]intrinsicFn
	baseNextObj        int
	initNextObj        int
	wallLimit          time.Duration
	thorough           bool
	shard              int
	shards             int
	deadline           time.Time

	// concrete mode
	concrete  bool
	nondetSrc func(name string, w int) uint64

	// results
	harness      string
	paths        []PathResult
	violations   []Violation
	obligations  int
	discharged   int
	trivial      int
	inconclusive []string
	reached      map[string]int
	globalWrites map[string]bool
	assertStats  map[string]*AssertStat
	ended        map[string]int
	pkgPath      string
	observations [][]obsRec
	samplePCs    []string
}

type AssertStat struct {
	Label   string
	Checked int
	Unsat   int
	Sat     int
	Unknown int
	Trivial int
}

type PathResult struct {
	ID      int
	Outcome Outcome
	Steps   int
	PCLen   int
}

type Violation struct {
	Harness string            `json:"harness"`
	Label   string            `json:"label"`
	Kind    string            `json:"kind"` // assert, panic
	Site    string            `json:"site"`
	Nondet  map[string]string `json:"nondet"` // name -> hex value
	Order   []string          `json:"order"`
	Stack   string            `json:"stack,omitempty"`
	Obs     []obsRec          `json:"observations,omitempty"`
}

type intrinsicFn func(p *Path, fn *ssa.Function, args []Value) (Value, bool)

func (r *Run) note(format string, a ...interface{}) {
	if len(r.notes) < 200 {
		r.notes = append(r.notes, fmt.Sprintf(format, a...))
	}
}

func (r *Run) push(p *Path) { r.work = append(r.work, p) }

// tick is called every ~1M steps: progress output and the wall-clock limit.
func (r *Run) tick(p *Path) {
	if os.Getenv("VCHECK_PROGRESS") != "" {
		fmt.Fprintf(os.Stderr, "[%s] steps=%dM paths done=%d pending=%d queries=%d at %s\n", r.harness, r.steps>>20, len(r.paths), len(r.work), r.stats.Queries, p.where())
	}
	if r.wallLimit > 0 && !r.deadline.IsZero() && time.Now().After(r.deadline) {
		p.end("steplimit", fmt.Sprintf("wall-clock limit %s exceeded inside a path at %s", r.wallLimit, p.where()))
	}
}

func (r *Run) globalObj(g *ssa.Global) int {
	if id, ok := r.globals[g]; ok {
		return id
	}
	// allocate in the base heap (zero-initialised), shared by all paths
	r.baseNextObj++
	id := -r.baseNextObj // negative IDs for base objects never clash with path objects
	elem := g.Type().Underlying().(*types.Pointer).Elem()
	n := r.in.sizeof(elem)
	var zero []Value
	if arr, ok := elem.Underlying().(*types.Array); ok && arr.Len() > 0 {
		zero = r.zeroCells(arr.Elem())
	} else {
		zero = r.zeroCells(elem)
	}
	o := &Object{ID: id, N: n, Zero: zero, Epoch: -1, Name: g.String(), Global: true}
	if g.Pkg != nil && !initWhitelisted(g.Pkg.Pkg.Path()) {
		switch elem.Underlying().(type) {
		case *types.Interface, *types.Pointer, *types.Map, *types.Slice, *types.Signature, *types.Chan:
			// the package initialiser is not executed: reading this variable before
			// anything was stored into it would silently see nil
			o.NoInit = true
		}
	}
	if len(zero) == 0 {
		o.Zero = []Value{Opaque{"empty"}}
	}
	if n <= denseLimit {
		o.Dense = make([]Value, n)
		for i := 0; i < n; i++ {
			o.Dense[i] = o.Zero[i%len(o.Zero)]
		}
	} else {
		o.Sparse = map[int]Value{}
	}
	r.base[id] = o
	r.globals[g] = id
	return id
}

func (r *Run) noteGlobalWrite(p *Path, o *Object) {
	if p.lenient {
		return
	}
	if r.globalWrites == nil {
		r.globalWrites = map[string]bool{}
	}
	site := p.where()
	r.globalWrites[o.Name+" @ "+site] = true
	if r.forbidGlobalWrites && !strings.Contains(site, "zz_verif_") {
		r.recordViolation(p, "library code writes package-level state: "+o.Name, "assert", site)
	}
}

func NewRun(in *Interp, capMs int, stats *SolverStats) *Run {
	ts := NewTermStore()
	r := &Run{in: in, ts: ts, stats: stats, base: map[int]*Object{}, globals: map[*ssa.Global]int{},
		maxSteps: 20_000_000, maxEnum: 1024, maxPaths: 200000, defUnwind: 16,
		varCache: map[int]map[int]bool{}, fnUsed: map[string]bool{}, intrCache: map[*ssa.Function]intrinsicFn{},
		reached: map[string]int{}, assertStats: map[string]*AssertStat{}, ended: map[string]int{}}
	r.solver = NewSolver(ts, capMs, stats)
	return r
}

// initPackages runs the package initialisers of the packages the harness
// depends on, concretely and leniently, into the base heap.
func (r *Run) initPackages(pkg *ssa.Package) error {
	initFn := pkg.Func("init")
	if initFn == nil {
		return nil
	}
	p := &Path{run: r, heap: map[int]*Object{}, conc: map[int]uint64{}, subst: map[string]Closure{},
		onceDone: map[string]bool{}, unwind: 1 << 30, lenient: true}
	p.epoch = -1
	p.pushFrame(initFn, nil, nil, -1, fkNormal)
	saveMax := r.maxSteps
	r.maxSteps = 200_000_000
	p.runLoop()
	r.maxSteps = saveMax
	if p.outcome.Kind != "return" {
		return fmt.Errorf("package init: %s %s", p.outcome.Kind, p.outcome.Msg)
	}
	// freeze: everything allocated during init moves to the base heap
	for id, o := range p.heap {
		o.Epoch = -1
		r.base[id] = o
	}
	r.initNextObj = p.nextObj
	r.steps = 0
	r.fnUsed = map[string]bool{}
	r.notes = nil
	return nil
}

// Execute runs the harness function to completion over all paths.
func (r *Run) Execute(fn *ssa.Function) {
	r.harness = fn.Name()
	p := &Path{run: r, heap: map[int]*Object{}, conc: map[int]uint64{}, subst: map[string]Closure{},
		onceDone: map[string]bool{}, unwind: r.defUnwind, model: Model{}}
	p.nextObj = r.initNextObj
	r.epochs++
	p.epoch = r.epochs
	r.nextPath++
	p.id = r.nextPath
	p.pushFrame(fn, nil, nil, -1, fkNormal)
	r.push(p)
	deadline := time.Now().Add(r.wallLimit)
	r.deadline = deadline
	for len(r.work) > 0 {
		n := len(r.work)
		q := r.work[n-1]
		r.work = r.work[:n-1]
		q.runLoop()
		r.finish(q)
		if len(r.paths) > r.maxPaths {
			r.inconclusive = append(r.inconclusive, fmt.Sprintf("path limit %d exceeded", r.maxPaths))
			break
		}
		if r.wallLimit > 0 && time.Now().After(deadline) {
			r.inconclusive = append(r.inconclusive, fmt.Sprintf("wall-clock limit %s exceeded with %d paths pending", r.wallLimit, len(r.work)))
			break
		}
	}
	r.solver.Close()
}

func (r *Run) finish(p *Path) {
	oc := *p.outcome
	if oc.Kind == "forked" {
		return
	}
	r.paths = append(r.paths, PathResult{ID: p.id, Outcome: oc, Steps: p.steps, PCLen: len(p.pc)})
	r.ended[oc.Kind]++
	if len(p.obs) > 0 && len(r.observations) < 64 {
		r.observations = append(r.observations, p.obs)
	}
	switch oc.Kind {
	case "return", "endpath":
		// vacuity twin: the end of the harness must be reachable
		if p.unknowns == 0 {
			r.reached["<end>"]++
		} else {
			res, _ := r.solver.Check(p.pc, false)
			if res == Sat {
				r.reached["<end>"]++
			}
		}
		if len(r.samplePCs) < 3 && len(p.pc) > 0 {
			var parts []string
			for i, c := range p.pc {
				if i >= 6 {
					parts = append(parts, "…")
					break
				}
				parts = append(parts, c.String())
			}
			r.samplePCs = append(r.samplePCs, strings.Join(parts, " ∧ "))
		}
	case "panic":
		if !p.panicOK {
			r.recordViolation(p, "panic: "+oc.Msg, "panic", oc.Msg)
		}
	case "unsupported", "unwind", "steplimit":
		r.inconclusive = append(r.inconclusive, oc.Kind+": "+oc.Msg)
	case "infeasible", "assume-false":
	}
}

func (r *Run) recordViolation(p *Path, label, kind, site string) {
	// complete the model over all nondets
	m := p.model
	if m == nil || p.unknowns > 0 {
		res, mm := r.solver.Check(p.pc, true)
		if res != Sat {
			if res == Unsat {
				return // path was only kept because of an unknown
			}
			r.inconclusive = append(r.inconclusive, "violation path without model: "+label)
			return
		}
		m = mm
	} else {
		// verify the cached model really satisfies the whole pc
		ok := true
		for _, c := range p.pc {
			if containsUF(c) {
				continue
			}
			if r.ts.Eval(c, m, nil) == 0 {
				ok = false
				break
			}
		}
		if !ok {
			res, mm := r.solver.Check(p.pc, true)
			if res != Sat {
				if res == Unsat {
					return
				}
				r.inconclusive = append(r.inconclusive, "violation path without model: "+label)
				return
			}
			m = mm
		}
	}
	v := Violation{Harness: r.harness, Label: label, Kind: kind, Site: site, Nondet: map[string]string{}}
	for _, nd := range p.nondets {
		val := uint64(0)
		if nd.T.Op == OpVar {
			val = m[nd.T.ID]
		} else if nd.T.IsConst() {
			val = nd.T.Val
		}
		v.Nondet[nd.Name] = fmt.Sprintf("%x", val)
		v.Order = append(v.Order, nd.Name)
	}
	if kind == "panic" {
		v.Stack = p.stack()
	}
	v.Obs = append(v.Obs, p.obs...)
	for _, e := range r.violations {
		if e.Label == v.Label {
			return // one witness per label
		}
	}
	r.violations = append(r.violations, v)
}

func (r *Run) stat(label string) *AssertStat {
	s, ok := r.assertStats[label]
	if !ok {
		s = &AssertStat{Label: label}
		r.assertStats[label] = s
	}
	return s
}

func (r *Run) sortedFns() []string {
	var out []string
	for f := range r.fnUsed {
		out = append(out, f)
	}
	sort.Strings(out)
	return out
}
