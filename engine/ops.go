package main

import (
	"go/token"
	"go/types"

	"golang.org/x/tools/go/ssa"
)

func (p *Path) unop(ins *ssa.UnOp) Value {
	x := p.eval(ins.X)
	ts := p.ts()
	switch ins.Op {
	case token.MUL: // load
		ptr, ok := x.(Ptr)
		if !ok {
			p.unsup("load through %T", x)
		}
		v := p.load(ptr, ins.Type())
		if ins.CommaOk {
			p.unsup("comma-ok load")
		}
		return v
	case token.NOT:
		return ts.BNot(p.term(x))
	case token.SUB:
		if _, ok := x.(Opaque); ok {
			return x
		}
		return ts.Neg(p.term(x))
	case token.XOR:
		return ts.Not(p.term(x))
	case token.ARROW:
		p.unsup("channel receive")
	}
	p.unsup("unop %s", ins.Op)
	return nil
}

func (p *Path) binop(op token.Token, x, y Value, xt, yt types.Type) Value {
	ts := p.ts()
	switch op {
	case token.EQL:
		return p.valueEq(x, y, xt)
	case token.NEQ:
		return ts.BNot(p.valueEq(x, y, xt))
	}
	if sx, ok := x.(Str); ok {
		sy, ok2 := y.(Str)
		if !ok2 {
			p.unsup("string binop with %T", y)
		}
		return p.strBinop(op, sx, sy)
	}
	if _, ok := x.(Opaque); ok {
		return x
	}
	if _, ok := y.(Opaque); ok {
		return y
	}
	a, b := p.term(x), p.term(y)
	w, signed, ok := intType(xt)
	if !ok {
		p.unsup("binop %s on %s", op, xt)
	}
	if w == 0 {
		switch op {
		case token.LAND, token.AND:
			return ts.BAnd(a, b)
		case token.LOR, token.OR:
			return ts.BOr(a, b)
		case token.XOR:
			return ts.BNot(ts.Eq(a, b))
		}
		p.unsup("bool binop %s", op)
	}
	switch op {
	case token.ADD:
		return ts.Add(a, b)
	case token.SUB:
		return ts.Sub(a, b)
	case token.MUL:
		return ts.Mul(a, b)
	case token.QUO, token.REM:
		p.check(ts.BNot(ts.Eq(b, ts.Const(0, w))), "divzero", "integer divide by zero")
		if signed {
			if op == token.QUO {
				return ts.SDiv(a, b)
			}
			return ts.SRem(a, b)
		}
		if op == token.QUO {
			return ts.UDiv(a, b)
		}
		return ts.URem(a, b)
	case token.AND:
		return ts.And(a, b)
	case token.OR:
		return ts.Or(a, b)
	case token.XOR:
		return ts.Xor(a, b)
	case token.AND_NOT:
		return ts.And(a, ts.Not(b))
	case token.SHL, token.SHR:
		// shift count: unsigned or signed (negative panics)
		sw, ssigned, _ := intType(yt)
		_ = sw
		if ssigned {
			p.check(ts.Sle(ts.Const(0, b.W), b), "shift", "negative shift amount")
		}
		// bring shift amount to width w, saturating
		var s *Term
		if b.W == w {
			s = b
		} else if b.W < w {
			s = ts.ZExt(b, w)
		} else {
			// b wider: if b >= w then result as for shift w
			big := ts.Ule(ts.Const(uint64(w), b.W), b)
			s = ts.Ite(big, ts.Const(uint64(w), w), ts.Extract(b, w-1, 0))
		}
		if op == token.SHL {
			return ts.Shl(a, s)
		}
		if signed {
			return ts.AShr(a, s)
		}
		return ts.LShr(a, s)
	case token.LSS:
		if signed {
			return ts.Slt(a, b)
		}
		return ts.Ult(a, b)
	case token.LEQ:
		if signed {
			return ts.Sle(a, b)
		}
		return ts.Ule(a, b)
	case token.GTR:
		if signed {
			return ts.Slt(b, a)
		}
		return ts.Ult(b, a)
	case token.GEQ:
		if signed {
			return ts.Sle(b, a)
		}
		return ts.Ule(b, a)
	}
	p.unsup("binop %s", op)
	return nil
}

func (p *Path) strBytes(s Str) ([]*Term, bool) {
	ts := p.ts()
	if !s.IsObj {
		out := make([]*Term, len(s.S))
		for i := 0; i < len(s.S); i++ {
			out[i] = ts.Const(uint64(s.S[i]), 8)
		}
		return out, true
	}
	if !s.Len.IsConst() {
		return nil, false
	}
	n := int(s.Len.Val)
	out := make([]*Term, n)
	for i := 0; i < n; i++ {
		out[i] = p.term(p.loadCell(s.P, i))
	}
	return out, true
}

func (p *Path) strLen(s Str) *Term {
	if !s.IsObj {
		return p.ts().Const(uint64(len(s.S)), 64)
	}
	return s.Len
}

func (p *Path) strEq(a, b Str) *Term {
	ts := p.ts()
	if !a.IsObj && !b.IsObj {
		return ts.Bool(a.S == b.S)
	}
	ab, ok1 := p.strBytes(a)
	bb, ok2 := p.strBytes(b)
	if !ok1 || !ok2 {
		p.unsup("string compare with symbolic length")
	}
	if len(ab) != len(bb) {
		return ts.False()
	}
	r := ts.True()
	for i := range ab {
		r = ts.BAnd(r, ts.Eq(ab[i], bb[i]))
	}
	return r
}

func (p *Path) strBinop(op token.Token, a, b Str) Value {
	ts := p.ts()
	if a.IsObj || b.IsObj {
		if op == token.ADD {
			ab, ok1 := p.strBytes(a)
			bb, ok2 := p.strBytes(b)
			if ok1 && ok2 {
				return p.newStr(append(ab, bb...))
			}
		}
		p.unsup("string op %s on symbolic strings", op)
	}
	switch op {
	case token.ADD:
		return Str{S: a.S + b.S}
	case token.LSS:
		return ts.Bool(a.S < b.S)
	case token.LEQ:
		return ts.Bool(a.S <= b.S)
	case token.GTR:
		return ts.Bool(a.S > b.S)
	case token.GEQ:
		return ts.Bool(a.S >= b.S)
	}
	p.unsup("string op %s", op)
	return nil
}

func (p *Path) newStr(bs []*Term) Str {
	allConst := true
	for _, b := range bs {
		if !b.IsConst() {
			allConst = false
			break
		}
	}
	if allConst {
		buf := make([]byte, len(bs))
		for i, b := range bs {
			buf[i] = byte(b.Val)
		}
		return Str{S: string(buf)}
	}
	o := p.newObj(len(bs), []Value{p.ts().Const(0, 8)}, "string")
	for i, b := range bs {
		o.set(i, b)
	}
	return Str{IsObj: true, P: Ptr{Obj: o.ID}, Len: p.ts().Const(uint64(len(bs)), 64)}
}

func (p *Path) ptrEq(a, b Ptr) *Term {
	ts := p.ts()
	a, b = p.resolve(a), p.resolve(b)
	if a.Obj != b.Obj {
		return ts.False()
	}
	if a.Obj == 0 {
		return ts.True()
	}
	oa := ts.Const(uint64(int64(a.Off)), 64)
	ob := ts.Const(uint64(int64(b.Off)), 64)
	var ta, tb *Term = oa, ob
	if a.Sym != nil {
		ta = ts.Add(a.Sym, oa)
	}
	if b.Sym != nil {
		tb = ts.Add(b.Sym, ob)
	}
	return ts.Eq(ta, tb)
}

func (p *Path) valueEq(x, y Value, t types.Type) *Term {
	ts := p.ts()
	switch a := x.(type) {
	case *Term:
		b, ok := y.(*Term)
		if !ok {
			p.unsup("compare scalar with %T", y)
		}
		return ts.Eq(a, b)
	case Ptr:
		b, ok := y.(Ptr)
		if !ok {
			p.unsup("compare pointer with %T", y)
		}
		return p.ptrEq(a, b)
	case Str:
		b, ok := y.(Str)
		if !ok {
			p.unsup("compare string with %T", y)
		}
		return p.strEq(a, b)
	case Iface:
		b, ok := y.(Iface)
		if !ok {
			p.unsup("compare interface with %T", y)
		}
		if a.T == nil || b.T == nil {
			return ts.Bool(a.T == nil && b.T == nil)
		}
		if !types.Identical(a.T, b.T) {
			return ts.False()
		}
		return p.valueEq(a.V, b.V, a.T)
	case *Agg:
		b, ok := y.(*Agg)
		if !ok || len(a.E) != len(b.E) {
			p.unsup("compare aggregate with %T", y)
		}
		r := ts.True()
		switch u := t.Underlying().(type) {
		case *types.Struct:
			for i := range a.E {
				r = ts.BAnd(r, p.valueEq(a.E[i], b.E[i], u.Field(i).Type()))
			}
		case *types.Array:
			for i := range a.E {
				r = ts.BAnd(r, p.valueEq(a.E[i], b.E[i], u.Elem()))
			}
		default:
			p.unsup("compare aggregate of type %s", t)
		}
		return r
	case Slice:
		b, ok := y.(Slice)
		if !ok {
			p.unsup("compare slice with %T", y)
		}
		// only comparison with nil is legal
		return ts.Bool(a.P.Obj == 0 && b.P.Obj == 0)
	case MapRef:
		b, _ := y.(MapRef)
		return ts.Bool(a.Obj == b.Obj)
	case ChanRef:
		b, _ := y.(ChanRef)
		return ts.Bool(a.Obj == b.Obj)
	case Closure:
		b, _ := y.(Closure)
		return ts.Bool(a.Fn == nil && b.Fn == nil && a.Bltn == "" && b.Bltn == "")
	case Opaque:
		p.unsup("compare opaque value (%s)", a.Why)
	}
	p.unsup("compare %T", x)
	return nil
}

func (p *Path) convert(x Value, from, to types.Type) Value {
	ts := p.ts()
	if _, ok := x.(Opaque); ok {
		return x
	}
	fw, fsigned, fok := intType(from)
	tw, _, tok := intType(to)
	if fok && tok && fw > 0 && tw > 0 {
		a := p.term(x)
		if tw == fw {
			return a
		}
		if tw < fw {
			return ts.Extract(a, tw-1, 0)
		}
		if fsigned {
			return ts.SExt(a, tw)
		}
		return ts.ZExt(a, tw)
	}
	if isString(to) {
		if fok && fw > 0 {
			a := p.term(x)
			if a.IsConst() {
				return Str{S: string(rune(int32(a.Val)))}
			}
			p.unsup("string(symbolic rune)")
		}
		if s, ok := x.(Slice); ok {
			n := int(p.concretize(s.Len, nil))
			bs := make([]*Term, n)
			for i := 0; i < n; i++ {
				bs[i] = p.term(p.loadCell(s.P, i))
			}
			return p.newStr(bs)
		}
		if s, ok := x.(Str); ok {
			return s
		}
	}
	if sl, ok := to.Underlying().(*types.Slice); ok {
		if s, ok := x.(Str); ok {
			if b, ok := sl.Elem().Underlying().(*types.Basic); ok && b.Kind() == types.Uint8 {
				bs, ok := p.strBytes(s)
				if !ok {
					p.unsup("[]byte(symbolic-length string)")
				}
				o := p.newObj(len(bs), []Value{ts.Const(0, 8)}, "[]byte(string)")
				for i, b := range bs {
					o.set(i, b)
				}
				n := ts.Const(uint64(len(bs)), 64)
				return Slice{P: Ptr{Obj: o.ID}, Len: n, Cap: n}
			}
			p.unsup("convert string to %s", to)
		}
		return x
	}
	if isFloat(to) || isFloat(from) {
		return Opaque{"float"}
	}
	// pointer <-> unsafe.Pointer etc.
	switch x.(type) {
	case Ptr, Slice, MapRef, Closure, Iface, *Agg, ChanRef:
		return x
	}
	p.unsup("convert %s to %s", from, to)
	return nil
}

func (p *Path) indexAddr(ins *ssa.IndexAddr) Value {
	x := p.eval(ins.X)
	idx := p.toInt64(p.term(p.eval(ins.Index)), ins.Index.Type())
	ts := p.ts()
	switch xt := ins.X.Type().Underlying().(type) {
	case *types.Slice:
		s, ok := x.(Slice)
		if !ok {
			p.unsup("indexaddr on %T", x)
		}
		p.check(ts.Ult(idx, s.Len), "index", "index out of range")
		stride := p.run.in.sizeof(xt.Elem())
		n := p.maxElems(s, stride)
		return p.addOffset(s.P, idx, stride, n)
	case *types.Pointer:
		arr := xt.Elem().Underlying().(*types.Array)
		ptr, ok := x.(Ptr)
		if !ok {
			p.unsup("indexaddr on %T", x)
		}
		p.nilCheck(ptr)
		n := int(arr.Len())
		p.check(ts.Ult(idx, ts.Const(uint64(n), 64)), "index", "index out of range")
		return p.addOffset(ptr, idx, p.run.in.sizeof(arr.Elem()), n)
	}
	p.unsup("indexaddr on type %s", ins.X.Type())
	return nil
}

// maxElems bounds the number of elements addressable through s.
func (p *Path) maxElems(s Slice, stride int) int {
	if s.Len.IsConst() {
		return int(s.Len.Val)
	}
	if v, ok := p.conc[s.Len.ID]; ok {
		return int(v)
	}
	if s.P.Obj == 0 {
		return 0
	}
	o := p.obj(s.P.Obj)
	rp := p.resolve(s.P)
	base := rp.Off
	if rp.Sym != nil && len(rp.Cands) > 0 {
		base += rp.Cands[0]
	}
	if stride == 0 {
		return 0
	}
	return (o.N - base) / stride
}

func (p *Path) index(ins *ssa.Index) Value {
	x := p.eval(ins.X)
	idx := p.toInt64(p.term(p.eval(ins.Index)), ins.Index.Type())
	ts := p.ts()
	switch a := x.(type) {
	case *Agg:
		n := len(a.E)
		p.check(ts.Ult(idx, ts.Const(uint64(n), 64)), "index", "index out of range")
		if idx.IsConst() {
			return a.E[idx.Val]
		}
		res, ok := a.E[n-1].(*Term)
		if !ok {
			v := p.concretize(idx, nil)
			return a.E[v]
		}
		for i := n - 2; i >= 0; i-- {
			res = ts.Ite(ts.Eq(idx, ts.Const(uint64(i), 64)), a.E[i].(*Term), res)
		}
		return res
	case Str:
		return p.strIndex(a, idx)
	}
	p.unsup("index on %T", x)
	return nil
}

func (p *Path) strIndex(a Str, idx *Term) Value {
	ts := p.ts()
	p.check(ts.Ult(idx, p.strLen(a)), "index", "string index out of range")
	if !a.IsObj {
		if idx.IsConst() {
			return ts.Const(uint64(a.S[idx.Val]), 8)
		}
		if v, ok := p.conc[idx.ID]; ok {
			return ts.Const(uint64(a.S[v]), 8)
		}
		n := len(a.S)
		res := ts.Const(uint64(a.S[n-1]), 8)
		for i := n - 2; i >= 0; i-- {
			res = ts.Ite(ts.Eq(idx, ts.Const(uint64(i), 64)), ts.Const(uint64(a.S[i]), 8), res)
		}
		return res
	}
	n := int(p.concretize(a.Len, nil))
	return p.loadCell(p.addOffset(a.P, idx, 1, n), 0)
}

func (p *Path) sliceOp(ins *ssa.Slice) Value {
	x := p.eval(ins.X)
	ts := p.ts()
	opt := func(v ssa.Value) *Term {
		if v == nil {
			return nil
		}
		return p.toInt64(p.term(p.eval(v)), v.Type())
	}
	lo, hi, max := opt(ins.Low), opt(ins.High), opt(ins.Max)
	if lo == nil {
		lo = ts.Const(0, 64)
	}
	switch xt := ins.X.Type().Underlying().(type) {
	case *types.Slice:
		s := x.(Slice)
		if hi == nil {
			hi = s.Len
		}
		if max == nil {
			max = s.Cap
		}
		ok := ts.BAndN(ts.Ule(lo, hi), ts.Ule(hi, max), ts.Ule(max, s.Cap))
		p.check(ok, "slice", "slice bounds out of range")
		stride := p.run.in.sizeof(xt.Elem())
		var np Ptr
		if s.P.Obj == 0 {
			np = s.P
		} else {
			capN := 0
			if s.Cap.IsConst() {
				capN = int(s.Cap.Val)
			} else {
				capN = p.maxElems(Slice{P: s.P, Len: s.Cap, Cap: s.Cap}, stride)
			}
			np = p.addOffset(s.P, lo, stride, capN+1)
		}
		return Slice{P: np, Len: ts.Sub(hi, lo), Cap: ts.Sub(max, lo)}
	case *types.Pointer:
		arr := xt.Elem().Underlying().(*types.Array)
		ptr := x.(Ptr)
		p.nilCheck(ptr)
		n := ts.Const(uint64(arr.Len()), 64)
		if hi == nil {
			hi = n
		}
		if max == nil {
			max = n
		}
		ok := ts.BAndN(ts.Ule(lo, hi), ts.Ule(hi, max), ts.Ule(max, n))
		p.check(ok, "slice", "slice bounds out of range")
		stride := p.run.in.sizeof(arr.Elem())
		np := p.addOffset(ptr, lo, stride, int(arr.Len())+1)
		return Slice{P: np, Len: ts.Sub(hi, lo), Cap: ts.Sub(max, lo)}
	case *types.Basic:
		s := x.(Str)
		n := p.strLen(s)
		if hi == nil {
			hi = n
		}
		ok := ts.BAndN(ts.Ule(lo, hi), ts.Ule(hi, n))
		p.check(ok, "slice", "slice bounds out of range")
		l := int(p.concretize(lo, nil))
		h := int(p.concretize(hi, nil))
		if !s.IsObj {
			return Str{S: s.S[l:h]}
		}
		np := s.P
		np.Off += l
		return Str{IsObj: true, P: np, Len: ts.Const(uint64(h-l), 64)}
	}
	p.unsup("slice of %s", ins.X.Type())
	return nil
}

func (p *Path) makeSlice(ins *ssa.MakeSlice) Value {
	ts := p.ts()
	ln := p.toInt64(p.term(p.eval(ins.Len)), ins.Len.Type())
	cp := p.toInt64(p.term(p.eval(ins.Cap)), ins.Cap.Type())
	p.check(ts.BAnd(ts.Sle(ts.Const(0, 64), ln), ts.Sle(ln, cp)), "makeslice", "makeslice: len out of range")
	c := int(p.concretize(cp, nil))
	if !ln.IsConst() {
		// a slice of symbolic length over a concrete backing array makes every
		// loop over it fork per element; sizes are case-split instead
		ln = p.ts().Const(p.concretize(ln, nil), 64)
	}
	if c > 1<<31 {
		p.unsup("makeslice of %d elements", c)
	}
	elem := ins.Type().Underlying().(*types.Slice).Elem()
	stride := p.run.in.sizeof(elem)
	o := p.newObj(c*stride, p.run.zeroCells(elem), "makeslice")
	return Slice{P: Ptr{Obj: o.ID}, Len: ln, Cap: ts.Const(uint64(c), 64)}
}

// ---------------------------------------------------------------------
// maps (concrete keys, insertion ordered)

func (p *Path) mapFind(o *Object, key Value, kt types.Type) int {
	for i, k := range o.Keys {
		eq := p.valueEq(k, key, kt)
		if eq.IsTrue() {
			return i
		}
		if !eq.IsFalse() {
			p.unsup("map with symbolic key")
		}
	}
	return -1
}

func (p *Path) lookup(ins *ssa.Lookup) Value {
	x := p.eval(ins.X)
	if s, ok := x.(Str); ok {
		idx := p.toInt64(p.term(p.eval(ins.Index)), ins.Index.Type())
		return p.strIndex(s, idx)
	}
	m, ok := x.(MapRef)
	if !ok {
		p.unsup("lookup on %T", x)
	}
	mt := ins.X.Type().Underlying().(*types.Map)
	var val Value
	found := false
	if m.Obj != 0 {
		o := p.obj(m.Obj)
		if i := p.mapFind(o, p.eval(ins.Index), mt.Key()); i >= 0 {
			val = o.Vals[i]
			found = true
		}
	}
	if !found {
		val = p.run.zeroVal(mt.Elem())
	}
	if ins.CommaOk {
		return &Agg{E: []Value{val, p.ts().Bool(found)}}
	}
	return val
}

func (p *Path) mapUpdate(mv, key, val Value, kt types.Type) {
	m, ok := mv.(MapRef)
	if !ok {
		p.unsup("mapupdate on %T", mv)
	}
	if m.Obj == 0 {
		p.raise("nilmap", "assignment to entry in nil map", nil)
	}
	o := p.mut(m.Obj)
	if o.Global {
		p.run.noteGlobalWrite(p, o)
	}
	if i := p.mapFind(o, key, kt); i >= 0 {
		o.Vals[i] = val
		return
	}
	o.Keys = append(o.Keys, key)
	o.Vals = append(o.Vals, val)
}

type rangeIter struct {
	isMap bool
	m     MapRef
	s     Str
	pos   int
}

func (p *Path) rangeStart(ins *ssa.Range) Value {
	x := p.eval(ins.X)
	o := p.newObj(1, []Value{p.ts().Const(0, 64)}, "rangeiter")
	switch v := x.(type) {
	case MapRef:
		return &Agg{E: []Value{v, Ptr{Obj: o.ID}}}
	case Str:
		return &Agg{E: []Value{v, Ptr{Obj: o.ID}}}
	}
	p.unsup("range over %T", x)
	return nil
}

func (p *Path) rangeNext(ins *ssa.Next) Value {
	it := p.eval(ins.Iter).(*Agg)
	ts := p.ts()
	cnt := it.E[1].(Ptr)
	pos := int(p.term(p.loadCell(cnt, 0)).Val)
	tup := ins.Type().(*types.Tuple)
	switch v := it.E[0].(type) {
	case MapRef:
		if v.Obj == 0 {
			return &Agg{E: []Value{ts.False(), p.run.zeroVal(tup.At(1).Type()), p.run.zeroVal(tup.At(2).Type())}}
		}
		o := p.obj(v.Obj)
		if pos >= len(o.Keys) {
			return &Agg{E: []Value{ts.False(), p.run.zeroVal(tup.At(1).Type()), p.run.zeroVal(tup.At(2).Type())}}
		}
		p.storeCell(cnt, 0, ts.Const(uint64(pos+1), 64))
		return &Agg{E: []Value{ts.True(), o.Keys[pos], o.Vals[pos]}}
	case Str:
		if v.IsObj {
			p.unsup("range over symbolic string")
		}
		if pos >= len(v.S) {
			return &Agg{E: []Value{ts.False(), ts.Const(0, 64), ts.Const(0, 32)}}
		}
		// decode rune
		rs := []rune(v.S[pos:])
		r := rs[0]
		size := len(string(r))
		if r == 0xFFFD {
			size = 1
		}
		p.storeCell(cnt, 0, ts.Const(uint64(pos+size), 64))
		return &Agg{E: []Value{ts.True(), ts.Const(uint64(pos), 64), ts.Const(uint64(r), 32)}}
	}
	p.unsup("next on %T", it.E[0])
	return nil
}

func (p *Path) typeAssert(ins *ssa.TypeAssert) Value {
	x, ok := p.eval(ins.X).(Iface)
	if !ok {
		p.unsup("typeassert on %T", p.eval(ins.X))
	}
	ts := p.ts()
	at := ins.AssertedType
	var holds bool
	if x.T != nil {
		if it, isI := at.Underlying().(*types.Interface); isI {
			holds = types.Implements(x.T, it)
		} else {
			holds = types.Identical(x.T, at)
		}
	}
	var res Value
	if holds {
		if _, isI := at.Underlying().(*types.Interface); isI {
			res = x
		} else {
			res = x.V
		}
	} else {
		res = p.run.zeroVal(at)
	}
	if ins.CommaOk {
		return &Agg{E: []Value{res, ts.Bool(holds)}}
	}
	if !holds {
		p.raise("typeassert", "interface conversion failed: "+at.String(), nil)
	}
	return res
}

// ---------------------------------------------------------------------
// builtins

func (p *Path) builtin(name string, args []Value, c *ssa.CallCommon) Value {
	ts := p.ts()
	switch name {
	case "len":
		switch a := args[0].(type) {
		case Slice:
			return a.Len
		case Str:
			return p.strLen(a)
		case MapRef:
			if a.Obj == 0 {
				return ts.Const(0, 64)
			}
			return ts.Const(uint64(len(p.obj(a.Obj).Keys)), 64)
		case Ptr: // pointer to array
			arr := c.Args[0].Type().Underlying().(*types.Pointer).Elem().Underlying().(*types.Array)
			return ts.Const(uint64(arr.Len()), 64)
		case *Agg:
			return ts.Const(uint64(len(a.E)), 64)
		case ChanRef:
			return ts.Const(0, 64)
		}
	case "cap":
		switch a := args[0].(type) {
		case Slice:
			return a.Cap
		case Ptr:
			arr := c.Args[0].Type().Underlying().(*types.Pointer).Elem().Underlying().(*types.Array)
			return ts.Const(uint64(arr.Len()), 64)
		case *Agg:
			return ts.Const(uint64(len(a.E)), 64)
		}
	case "append":
		return p.appendBuiltin(args, c)
	case "copy":
		return p.copyBuiltin(args, c)
	case "recover":
		f := p.top()
		if f.kind == fkDeferredPanic && p.panicking != nil {
			v := p.panicking.val
			p.panicking = nil
			p.recovered = true
			return v
		}
		return Iface{}
	case "print", "println":
		return nil
	case "ssa:wrapnilchk":
		if ptr, ok := args[0].(Ptr); ok && ptr.Obj == 0 {
			p.raise("nil", "value method called using nil pointer", nil)
		}
		return args[0]
	case "close":
		return nil
	case "String": // unsafe.String(ptr, len)
		ptr, ok := args[0].(Ptr)
		if !ok {
			p.unsup("unsafe.String of %T", args[0])
		}
		n := p.toInt64(p.term(args[1]), c.Args[1].Type())
		if ptr.Obj == 0 {
			return Str{}
		}
		return Str{IsObj: true, P: ptr, Len: n}
	case "StringData": // unsafe.StringData(s)
		st, ok := args[0].(Str)
		if !ok {
			p.unsup("unsafe.StringData of %T", args[0])
		}
		if st.IsObj {
			return st.P
		}
		bs, _ := p.strBytes(st)
		o := p.newObj(len(bs)+1, []Value{p.ts().Const(0, 8)}, "stringdata")
		for i, b := range bs {
			o.set(i, b)
		}
		return Ptr{Obj: o.ID}
	case "delete":
		m := args[0].(MapRef)
		if m.Obj == 0 {
			return nil
		}
		o := p.mut(m.Obj)
		mt := c.Args[0].Type().Underlying().(*types.Map)
		if i := p.mapFind(o, args[1], mt.Key()); i >= 0 {
			o.Keys = append(o.Keys[:i:i], o.Keys[i+1:]...)
			o.Vals = append(o.Vals[:i:i], o.Vals[i+1:]...)
		}
		return nil
	case "min", "max":
		_, signed, _ := intType(c.Args[0].Type())
		r := p.term(args[0])
		for _, a := range args[1:] {
			b := p.term(a)
			var lt *Term
			if signed {
				lt = ts.Slt(b, r)
			} else {
				lt = ts.Ult(b, r)
			}
			if name == "max" {
				lt = ts.BNot(ts.BOr(lt, ts.Eq(b, r)))
			}
			r = ts.Ite(lt, b, r)
		}
		return r
	}
	p.unsup("builtin %s(%T)", name, args[0])
	return nil
}

func (p *Path) appendBuiltin(args []Value, c *ssa.CallCommon) Value {
	ts := p.ts()
	s, ok := args[0].(Slice)
	if !ok {
		p.unsup("append to %T", args[0])
	}
	elem := c.Args[0].Type().Underlying().(*types.Slice).Elem()
	stride := p.run.in.sizeof(elem)
	// source elements as cell getter
	var n int
	var get func(i int) Value
	switch e := args[1].(type) {
	case Slice:
		n = int(p.concretize(e.Len, nil))
		get = func(i int) Value { return p.loadCell(e.P, i) }
	case Str:
		bs, ok := p.strBytes(e)
		if !ok {
			p.unsup("append symbolic-length string")
		}
		n = len(bs)
		get = func(i int) Value { return bs[i] }
	default:
		p.unsup("append of %T", args[1])
	}
	if n == 0 {
		return s
	}
	ln := int(p.concretize(s.Len, nil))
	cp := int(p.concretize(s.Cap, nil))
	cells := make([]Value, n*stride)
	for i := range cells {
		cells[i] = get(i)
	}
	if ln+n <= cp {
		for i, v := range cells {
			p.storeCell(s.P, ln*stride+i, v)
		}
		return Slice{P: s.P, Len: ts.Const(uint64(ln+n), 64), Cap: s.Cap}
	}
	newCap := 2 * cp
	if newCap < ln+n {
		newCap = ln + n
	}
	if newCap < 4 {
		newCap = 4
	}
	o := p.newObj(newCap*stride, p.run.zeroCells(elem), "append")
	for i := 0; i < ln*stride; i++ {
		o.set(i, p.loadCell(s.P, i))
	}
	for i, v := range cells {
		o.set(ln*stride+i, v)
	}
	return Slice{P: Ptr{Obj: o.ID}, Len: ts.Const(uint64(ln+n), 64), Cap: ts.Const(uint64(newCap), 64)}
}

func (p *Path) copyBuiltin(args []Value, c *ssa.CallCommon) Value {
	ts := p.ts()
	d, ok := args[0].(Slice)
	if !ok {
		p.unsup("copy to %T", args[0])
	}
	elem := c.Args[0].Type().Underlying().(*types.Slice).Elem()
	stride := p.run.in.sizeof(elem)
	var srcLen *Term
	var get func(i int) Value
	switch e := args[1].(type) {
	case Slice:
		srcLen = e.Len
		get = func(i int) Value { return p.loadCell(e.P, i) }
	case Str:
		srcLen = p.strLen(e)
		if e.IsObj {
			get = func(i int) Value { return p.loadCell(e.P, i) }
		} else {
			get = func(i int) Value { return ts.Const(uint64(e.S[i]), 8) }
		}
	default:
		p.unsup("copy from %T", args[1])
	}
	nT := ts.Ite(ts.Slt(srcLen, d.Len), srcLen, d.Len)
	n := int(p.concretize(nT, nil))
	cells := make([]Value, n*stride)
	for i := range cells {
		cells[i] = get(i)
	}
	for i, v := range cells {
		p.storeCell(d.P, i, v)
	}
	return ts.Const(uint64(n), 64)
}
