#!/usr/bin/env python3
# Regenerates MANIFEST.json from manifest_src.json (claims) so that the file stays consistent.
import json,sys
src=json.load(open('/verif/manifest_src.json'))
props=[json.loads(l) for l in open('/verif/properties.jsonl')]
checks=[]
na=[]
for p in props:
    pid=p['id']
    c=src['claims'].get(pid)
    if not c:
        na.append({"property_id":pid,"reason":src['not_applicable'].get(pid,"check under construction in this session; not claimed yet")})
        continue
    checks.append({
        "property_id":pid,
        "quick_cmd":f"/verif/bin/vcheck run --prop {pid} --tier quick",
        "thorough_cmd":f"/verif/bin/vcheck run --prop {pid} --tier thorough",
        "evidence_file":f"/verif/evidence/{pid}.json",
        "replay_cmd_template":"/verif/bin/vcheck replay {path}",
        "engine":"vcheck",
        "level_claimed":{"category":c['category'],"text":c['text'],"design_ref":c.get('design_ref','DESIGN.md §5 '+pid)},
        "level_note":c['note'],
        "technique":c.get('technique',"bounded symbolic execution of the real Go code (go/ssa -> SMT-LIB2 bit-vectors), z3/cvc5 decide every assertion; counterexamples replayed natively"),
    })
m={"version":1,
   "setup_cmd":"cd /verif/engine && GOFLAGS=-mod=vendor GOPROXY=off GOTOOLCHAIN=local go build -o /verif/bin/vcheck .",
   "hooks":{"guard":"verif","enable":"no source hooks: harnesses are injected through go/packages and `go test -overlay` overlays as /repo/<pkg>/zz_verif_*.go; nothing under /repo is edited for instrumentation","baseline_off_cmd":"cd /repo && GOFLAGS=-mod=mod go test -json -vet=off -count=1 -timeout 25m ./...","source_commits":[],"add_only":True},
   "engines":[{"name":"vcheck","path":"/verif/engine","serves_properties":[c['property_id'] for c in checks],"kind_free_text":"symbolic interpreter for go/ssa written for this task; lowers paths to SMT-LIB2 (QF_BV + UF) for z3 5.1 / cvc5 1.0; native replay and translator validation through go test -overlay"}],
   "checks":checks,
   "notes":src.get('notes',''),
   "not_applicable":na}
json.dump(m,open('/verif/MANIFEST.json','w'),indent=1)
print(len(checks),"claimed,",len(na),"not applicable")
