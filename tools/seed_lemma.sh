#!/bin/bash
# usage: seed_lemma.sh <seed-id> <prop> <lemma>   - run one lemma of a property against a seeded change,
# in a scratch worktree of /repo's HEAD (so /repo itself is never modified)
S=$1; PROP=$2; L=$3
P=/verif/seeded/$S/patch.diff
WT=/tmp/wtl-$$
git -C /repo worktree add -q --detach $WT HEAD || exit 2
trap 'git -C /repo worktree remove --force $WT >/dev/null 2>&1' EXIT
git -C $WT apply $P || git -C $WT apply --3way $P || { echo "$S: patch does not apply"; exit 2; }
out=$(cd /verif && timeout 1800 ./bin/vcheck run --repo $WT --prop $PROP --lemma $L 2>&1)
rc=$?
echo "$S vs $PROP/$L: exit=$rc"
echo "$out" | grep -E '^(VIOLATION|INCONCLUSIVE|STALE|ENGINE|VACUOUS)' | sed "s#$WT#/repo#g" | cut -c1-300 | head -5
