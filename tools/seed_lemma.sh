#!/bin/bash
# usage: seed_lemma.sh <seed-id> <prop> <lemma>   — apply seeded patch, run one lemma of a property, revert
S=$1; PROP=$2; L=$3
P=/verif/seeded/$S/patch.diff
cd /repo || exit 2
if [ -n "$(git status --porcelain --untracked-files=no | grep -v testdata/enwik7)" ]; then echo "/repo not clean"; exit 2; fi
git apply $P || { echo "$S: patch does not apply"; exit 2; }
trap 'git -C /repo checkout -- . ' EXIT
out=$(cd /verif && timeout 1800 ./bin/vcheck run --prop $PROP --lemma $L 2>&1)
rc=$?
echo "$S vs $PROP/$L: exit=$rc"
echo "$out" | grep -E '^(VIOLATION|INCONCLUSIVE|STALE|ENGINE|VACUOUS)' | cut -c1-300 | head -5
