#!/bin/bash
# usage: [VERIF_DIR=<snapshot>] seed_matrix.sh [seed-id ...]
# Runs each seeded change against the quick check of its property in a scratch worktree of /repo's HEAD
# (/repo itself stays untouched) and records the outcome in <verif>/seeded/<id>/result.txt.
export GOFLAGS=-mod=mod GOPROXY=off GOSUMDB=off GOTOOLCHAIN=local
V=${VERIF_DIR:-/verif}
WT=/tmp/wtm-$$
git -C /repo worktree add -q --detach $WT HEAD || exit 2
trap 'git -C /repo worktree remove --force $WT >/dev/null 2>&1' EXIT
SEEDS="$@"
[ -z "$SEEDS" ] && SEEDS=$(ls $V/seeded)
for S in $SEEDS; do
  P=$V/seeded/$S/patch.diff
  PROP=${S%%-*}
  git -C $WT checkout -q -- . ; git -C $WT clean -fdq
  if ! git -C $WT apply $P 2>/dev/null; then
    if ! git -C $WT apply --3way $P >/dev/null 2>&1; then echo "$S: patch does not apply to HEAD" | tee $V/seeded/$S/result.txt; continue; fi
  fi
  t0=$(date +%s)
  out=$(cd $V && timeout 2400 ./bin/vcheck run --repo $WT --verif $V --prop $PROP 2>&1)
  rc=$?
  t1=$(date +%s)
  {
    echo "seed=$S property=$PROP exit=$rc wall=$((t1-t0))s verif_commit=$(git -C $V log --format=%h -1) repo_commit=$(git -C /repo log --format=%h -1)"
    echo "$out" | grep -E '^(VIOLATION|INCONCLUSIVE|STALE|ENGINE|VACUOUS)' | sed "s#$WT#/repo#g; s#$V#/verif#g" | cut -c1-300 | head -6
  } | tee $V/seeded/$S/result.txt
done
