#!/bin/bash
# usage: seed_matrix.sh [seed-id ...]   - runs each seeded change against the quick check of its property
# in a scratch worktree of /repo's HEAD (so /repo itself stays untouched) and records the outcome.
export GOFLAGS=-mod=mod GOPROXY=off GOSUMDB=off GOTOOLCHAIN=local
WT=/tmp/wtm
git -C /repo worktree remove --force $WT >/dev/null 2>&1
git -C /repo worktree add -q --detach $WT HEAD || exit 2
trap 'git -C /repo worktree remove --force $WT >/dev/null 2>&1' EXIT
SEEDS="$@"
[ -z "$SEEDS" ] && SEEDS=$(ls /verif/seeded)
for S in $SEEDS; do
  P=/verif/seeded/$S/patch.diff
  PROP=${S%%-*}
  git -C $WT checkout -q -- . ; git -C $WT clean -fdq
  if ! git -C $WT apply $P 2>/dev/null; then
    if ! git -C $WT apply --3way $P >/dev/null 2>&1; then echo "$S: patch does not apply to HEAD" | tee /verif/seeded/$S/result.txt; continue; fi
  fi
  t0=$(date +%s)
  out=$(cd /verif && VERIF_REPO=$WT timeout 2400 ./bin/vcheck run --repo $WT --prop $PROP 2>&1)
  rc=$?
  t1=$(date +%s)
  {
    echo "seed=$S property=$PROP exit=$rc wall=$((t1-t0))s commit=$(git -C /verif log --format=%h -1)"
    echo "$out" | grep -E '^(VIOLATION|INCONCLUSIVE|STALE|ENGINE|VACUOUS)' | sed "s#$WT#/repo#g" | cut -c1-300 | head -6
  } | tee /verif/seeded/$S/result.txt
done
