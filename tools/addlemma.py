#!/usr/bin/env python3
# usage: addlemma.py < lemma.json   (object or list of objects; upsert by name into /verif/lemmas.json)
import json,sys
lf=json.load(open('/verif/lemmas.json'))
new=json.load(sys.stdin)
if isinstance(new,dict): new=[new]
for n in new:
    for i,l in enumerate(lf['lemmas']):
        if l['name']==n['name']:
            lf['lemmas'][i]=n; break
    else:
        lf['lemmas'].append(n)
json.dump(lf,open('/verif/lemmas.json','w'),indent=1)
print(len(lf['lemmas']),'lemmas')
