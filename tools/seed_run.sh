#!/bin/bash
# usage: seed_run.sh <seed-id e.g. C05-A> <prop> [<prop>...]
# Applies the seeded change to /repo, runs the given property checks (quick), reverts /repo.
S=$1; shift
P=/verif/seeded/$S/patch.diff
cd /repo || exit 2
if [ -n "$(git status --porcelain --untracked-files=no | grep -v testdata/enwik7)" ]; then echo "/repo not clean"; exit 2; fi
git apply $P || { echo "$S: patch does not apply"; exit 2; }
trap 'git -C /repo checkout -- . ' EXIT
for prop in "$@"; do
  out=$(cd /verif && timeout 1800 ./bin/vcheck run --prop $prop 2>&1)
  rc=$?
  echo "$S vs $prop: exit=$rc $(echo "$out" | grep -c '^VIOLATION') violation line(s)"
  echo "$out" | grep -E '^(VIOLATION|INCONCLUSIVE|STALE|ENGINE|VACUOUS)' | cut -c1-260 | head -4
done
