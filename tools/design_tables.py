#!/usr/bin/env python3
# Emits the "implemented lemma catalogue" and "property -> lemmas" tables for DESIGN.md from lemmas.json.
import json
lf=json.load(open('/verif/lemmas.json'))
print('| lemma | package | harnesses | native twin | properties | bounds (quick [thorough]) |')
print('|---|---|---|---|---|---|')
for l in lf['lemmas']:
    hs=', '.join(h.replace('VH_','') for h in l['harnesses'])
    nat='no (substitutions)' if l.get('no_native') else 'yes'
    print(f"| {l['name']} | {l['pkg']} | {hs} | {nat} | {' '.join(l['props'])} | {l['bounds']} |")
print()
props={}
for l in lf['lemmas']:
    for p in l['props']: props.setdefault(p,[]).append(l['name'])
print('| property | lemmas run by its check |')
print('|---|---|')
for p in sorted(props): print(f"| {p} | {', '.join(props[p])} |")
