#!/usr/bin/env python3
# Writes /verif/seeded/<id>/meta.json from notes.md, demo_dir.txt and result.txt, and prints the
# detection table (markdown) used in DESIGN.md §12.
import json, os, re, glob
root='/verif/seeded'
props={}
for l in open('/verif/properties.jsonl'):
    p=json.loads(l); props[p['id']]=p['title']
rows=[]
for d in sorted(os.listdir(root)):
    dd=os.path.join(root,d)
    if not os.path.isdir(dd): continue
    prop=d.split('-')[0]
    notes=open(os.path.join(dd,'notes.md')).read() if os.path.exists(os.path.join(dd,'notes.md')) else ''
    title=''
    for line in notes.splitlines():
        if line.startswith('#'):
            title=line.lstrip('# ').strip(); break
    # "what it needs" paragraph
    needs=''
    m=re.search(r'(?is)#+\s*(what is needed[^\n]*|what it takes[^\n]*|what triggers[^\n]*|trigger[^\n]*|what it needs[^\n]*)\n(.*?)(\n#+\s|\Z)', notes)
    if m: needs=' '.join(m.group(2).split())[:900]
    files=sorted(set(re.findall(r'^\+\+\+ b/(\S+)', open(os.path.join(dd,'patch.diff')).read(), re.M)))
    demo=[f for f in os.listdir(dd) if f.endswith('_test.go')]
    demo_dir=open(os.path.join(dd,'demo_dir.txt')).read().strip() if os.path.exists(os.path.join(dd,'demo_dir.txt')) else '.'
    res=open(os.path.join(dd,'result.txt')).read().strip().splitlines() if os.path.exists(os.path.join(dd,'result.txt')) else []
    exitc=None; caught=[]
    if res:
        m=re.search(r'exit=(\d+)',res[0]); exitc=int(m.group(1)) if m else None
        for l in res[1:]:
            m=re.search(r'^VIOLATION .*lemma=(\S+) harness=(\S+) assert="(.*)"',l)
            if m: caught.append({'lemma':m.group(1),'harness':m.group(2),'assert':m.group(3)})
    meta={
      'id':d,'property':prop,'property_title':props.get(prop,''),
      'change':title,'files_changed':files,
      'needs_to_manifest':needs,
      'written_by':'independent sub-agent that saw only the property text and a scratch worktree of /repo',
      'confirmed_by':'tools/seed_verify.sh / tools/seed_verify2.sh in a fresh scratch worktree: demonstration passes on the unmodified tree; patch applies; `go build ./... && go test -vet=off -count=1 ./...` passes with the patch; demonstration fails with the patch',
      'demonstration':{'file':demo[0] if demo else None,'copy_into':demo_dir,'run':"go test -vet=off -count=1 -run 'TestDemo|Demo' ./"+demo_dir},
      'check_run':{'command':f'/verif/bin/vcheck run --prop {prop} --tier quick (patch applied in a scratch worktree, tools/seed_matrix.sh)','exit':exitc,'detected':exitc==1,'reported_by':caught[:4],'raw':res[:1]},
    }
    json.dump(meta,open(os.path.join(dd,'meta.json'),'w'),indent=1)
    rows.append((d,title,exitc,', '.join(sorted(set(c['lemma'] for c in caught)))))
print('| id | change | quick check of its property | reported by lemma(s) |')
print('|---|---|---|---|')
for d,t,e,c in rows:
    verdict={1:'VIOLATION (exit 1)',0:'not detected (exit 0)',3:'inconclusive (exit 3)',2:'stale (exit 2)',None:'not run'}.get(e,str(e))
    print(f'| {d} | {t[:110]} | {verdict} | {c} |')
