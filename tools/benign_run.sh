#!/bin/bash
# usage: benign_run.sh <id> <prop> [<prop> ...] - applies a behaviour-preserving change (benign/<id>/patch.diff)
# in a scratch worktree of /repo's HEAD and runs the quick checks of the given properties: they must not raise an alarm.
export GOFLAGS=-mod=mod GOPROXY=off GOSUMDB=off GOTOOLCHAIN=local
V=${VERIF_DIR:-/verif}
ID=$1; shift
WT=/tmp/wtb-$$
git -C /repo worktree add -q --detach $WT HEAD || exit 2
trap 'git -C /repo worktree remove --force $WT >/dev/null 2>&1' EXIT
git -C $WT apply $V/benign/$ID/patch.diff || { echo "$ID: patch does not apply"; exit 2; }
(cd $WT && go build ./... && go test -vet=off -count=1 ./... >/dev/null 2>&1) || { echo "$ID: suite fails with the patch"; exit 2; }
: > $V/benign/$ID/result.txt
for PROP in "$@"; do
  t0=$(date +%s)
  out=$(cd $V && timeout 2400 ./bin/vcheck run --repo $WT --verif $V --prop $PROP 2>&1)
  rc=$?
  t1=$(date +%s)
  {
    echo "benign=$ID property=$PROP exit=$rc wall=$((t1-t0))s"
    echo "$out" | grep -E '^(VIOLATION|INCONCLUSIVE|STALE|ENGINE|VACUOUS)' | sed "s#$WT#/repo#g" | cut -c1-300 | head -6
  } | tee -a $V/benign/$ID/result.txt
done
