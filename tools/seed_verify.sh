#!/bin/bash
# usage: seed_verify.sh Cxx A|B
# Confirms a sub-agent's mutant in a scratch worktree of /repo's current HEAD:
#   patch applies, suite passes with it, demo fails with it, demo passes without it.
# On success stores it under /verif/seeded/Cxx-A/.
set -u
export GOFLAGS=-mod=mod GOPROXY=off GOSUMDB=off GOTOOLCHAIN=local
ID=$1; V=$2
SRC=/tmp/wt/out/$ID/$V
WT=/tmp/wt/verify-$ID-$V
OUT=/verif/seeded/$ID-$V
LOG=/tmp/wt/verify-$ID-$V.log
: > $LOG
git -C /repo worktree remove --force $WT >/dev/null 2>&1
git -C /repo worktree add -q --detach $WT HEAD || exit 2
cleanup() { git -C /repo worktree remove --force $WT >/dev/null 2>&1; }
trap cleanup EXIT
cd $WT
DEMO=$(ls $SRC/*_test.go $SRC/*.go 2>/dev/null | head -1)
if [ -z "$DEMO" ]; then echo "$ID-$V: no demo"; exit 2; fi
PKGLINE=$(grep -m1 '^package ' $DEMO | awk '{print $2}')
case $PKGLINE in
  xz|xz_test) DIR=. ;;
  lzma|lzma_test) DIR=lzma ;;
  main|main_test) DIR=cmd/gxz ;;
  hash|hash_test) DIR=internal/hash ;;
  *) DIR=. ;;
esac
# explicit hint in the demo overrides
if grep -qi "copy.*into.*cmd/gxz" $DEMO $SRC/notes.md 2>/dev/null && [ "$PKGLINE" = main ]; then DIR=cmd/gxz; fi
DEMOBASE=zz_seed_demo_test.go
run_demo() { (cd $WT && timeout 900 go test -vet=off -count=1 -run 'Demo|C[0-9][0-9]' ./$DIR >> $LOG 2>&1); }
# 1. demo passes on clean tree
cp $DEMO $WT/$DIR/$DEMOBASE
echo "== demo on clean tree" >> $LOG
if ! run_demo; then echo "$ID-$V: REJECT demo fails on the clean (current HEAD) tree"; tail -5 $LOG; exit 1; fi
rm $WT/$DIR/$DEMOBASE
# 2. patch applies
if ! git apply --check $SRC/patch.diff 2>>$LOG; then
  if ! git apply --3way $SRC/patch.diff >>$LOG 2>&1; then echo "$ID-$V: REJECT patch does not apply to current HEAD"; exit 1; fi
else
  git apply $SRC/patch.diff
fi
git diff HEAD > /tmp/wt/verify-$ID-$V.patch
# 3. suite passes with patch
echo "== suite with patch" >> $LOG
if ! (timeout 1200 go build ./... >> $LOG 2>&1 && timeout 1500 go test -vet=off -count=1 ./... >> $LOG 2>&1); then echo "$ID-$V: REJECT suite fails with the patch"; tail -5 $LOG; exit 1; fi
# 4. demo fails with patch
cp $DEMO $WT/$DIR/$DEMOBASE
echo "== demo with patch" >> $LOG
if run_demo; then echo "$ID-$V: REJECT demo passes with the patch"; exit 1; fi
mkdir -p $OUT
cp /tmp/wt/verify-$ID-$V.patch $OUT/patch.diff
cp $DEMO $OUT/$(basename $DEMO)
cp $SRC/notes.md $OUT/notes.md 2>/dev/null
echo "$DIR" > $OUT/demo_dir.txt
echo "$ID-$V: CONFIRMED (demo dir $DIR)"
