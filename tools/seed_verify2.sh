#!/bin/bash
# usage: seed_verify2.sh <ID>   (deliverables in /tmp/wt2/out/<ID>/)
# Confirms a sub-agent's change in a fresh scratch worktree of /repo's HEAD: demo passes on the clean tree,
# patch applies, suite passes with it, demo fails with it. On success stores it under /verif/seeded/<ID>/.
set -u
export GOFLAGS=-mod=mod GOPROXY=off GOSUMDB=off GOTOOLCHAIN=local
ID=$1
SRC=/tmp/wt2/out/$ID
WT=/tmp/wt2/verify-$ID
OUT=/verif/seeded/$ID
LOG=/tmp/wt2/verify-$ID.log
: > $LOG
git -C /repo worktree remove --force $WT >/dev/null 2>&1
git -C /repo worktree add -q --detach $WT HEAD || exit 2
cleanup() { git -C /repo worktree remove --force $WT >/dev/null 2>&1; }
trap cleanup EXIT
DEMO=$SRC/demo_test.go
[ -f $DEMO ] || { echo "$ID: no demo"; exit 2; }
DIR=$(head -3 $DEMO | grep -m1 -i 'copy into' | sed 's/.*copy into:[ ]*//' | awk '{print $1}')
[ -z "$DIR" ] && DIR=.
run_demo() { (cd $WT && timeout 900 go test -vet=off -count=1 -run 'TestDemo' ./$DIR >> $LOG 2>&1); }
cp $DEMO $WT/$DIR/zz_seed_demo_test.go
echo "== demo on clean tree" >> $LOG
if ! run_demo; then echo "$ID: REJECT demo fails on the clean tree"; tail -5 $LOG; exit 1; fi
rm $WT/$DIR/zz_seed_demo_test.go
if ! git -C $WT apply $SRC/patch.diff 2>>$LOG; then echo "$ID: REJECT patch does not apply"; exit 1; fi
echo "== suite with patch" >> $LOG
if ! (cd $WT && timeout 1200 go build ./... >> $LOG 2>&1 && timeout 1500 go test -vet=off -count=1 ./... >> $LOG 2>&1); then echo "$ID: REJECT suite fails with the patch"; tail -5 $LOG; exit 1; fi
cp $DEMO $WT/$DIR/zz_seed_demo_test.go
echo "== demo with patch" >> $LOG
if run_demo; then echo "$ID: REJECT demo passes with the patch"; exit 1; fi
mkdir -p $OUT
cp $SRC/patch.diff $OUT/patch.diff
cp $DEMO $OUT/demo_test.go
cp $SRC/notes.md $OUT/notes.md 2>/dev/null
echo "$DIR" > $OUT/demo_dir.txt
echo "$ID: CONFIRMED (demo dir $DIR)"
