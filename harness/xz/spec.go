package xz

import (
	"crypto/sha256"
	"hash/crc32"
	"hash/crc64"

	"github.com/ulikunitz/xz/lzma"
)

// Reference transcription of "The .xz File Format" 1.0.4 field layouts,
// written independently of the library (only hash/crc32 is shared, which the
// engine treats as an uninterpreted function anyway).

func specCRC32(p []byte) uint32 {
	h := crc32.NewIEEE()
	h.Write(p)
	return h.Sum32()
}

func specLE32(p []byte) uint32 {
	return uint32(p[0]) | uint32(p[1])<<8 | uint32(p[2])<<16 | uint32(p[3])<<24
}

func specCheckSize(id byte) int {
	switch id {
	case 0:
		return 0
	case 1:
		return 4
	case 4:
		return 8
	case 10:
		return 32
	}
	return -1
}

// specVarint decodes a multibyte integer (section 1.2): at most 9 bytes,
// 63 bits, minimal encoding. lenient=true also admits what the library
// documents it tolerates: a 10th byte (<= 1) and non-minimal encodings.
func specVarint(p []byte, lenient bool) (v uint64, n int, ok bool) {
	max := 9
	if lenient {
		max = 10
	}
	for i := 0; i < len(p) && i < max; i++ {
		b := p[i]
		if i == 9 && b > 1 {
			return 0, 0, false
		}
		v |= uint64(b&0x7f) << (7 * uint(i))
		if b&0x80 == 0 {
			if b == 0 && i > 0 && !lenient {
				return 0, 0, false
			}
			return v, i + 1, true
		}
	}
	return 0, 0, false
}

func specVarintLen(v uint64) int {
	n := 1
	for v >= 0x80 {
		v >>= 7
		n++
	}
	return n
}

// specHeader: 12 bytes FD 37 7A 58 5A 00 | 00 ck | crc32(bytes 6,7) LE.
func specHeader(d []byte) (ck byte, ok bool) {
	if len(d) != 12 {
		return 0, false
	}
	if d[0] != 0xfd || d[1] != '7' || d[2] != 'z' || d[3] != 'X' || d[4] != 'Z' || d[5] != 0 {
		return 0, false
	}
	if d[6] != 0 || specCheckSize(d[7]) < 0 {
		return 0, false
	}
	if specLE32(d[8:12]) != specCRC32(d[6:8]) {
		return 0, false
	}
	return d[7], true
}

// specFooter: crc32(bytes 4..9) LE | backward size u32 LE | 00 ck | 'Y' 'Z'.
func specFooter(d []byte) (indexSize int64, ck byte, ok bool) {
	if len(d) != 12 {
		return 0, 0, false
	}
	if d[10] != 'Y' || d[11] != 'Z' {
		return 0, 0, false
	}
	if specLE32(d[0:4]) != specCRC32(d[4:10]) {
		return 0, 0, false
	}
	if d[8] != 0 || specCheckSize(d[9]) < 0 {
		return 0, 0, false
	}
	return (int64(specLE32(d[4:8])) + 1) * 4, d[9], true
}

// specBlockHeader parses a block header restricted to one LZMA2 filter.
// csize/usize are -1 when absent. okStrict: valid per the specification;
// okLenient: additionally tolerates lenient varints (see specVarint).
func specBlockHeader(d []byte, lenient bool) (csize, usize int64, dictCode byte, ok bool) {
	csize, usize = -1, -1
	if len(d) < 8 || d[0] == 0 || len(d) != (int(d[0])+1)*4 {
		return
	}
	n := len(d) - 4
	if specLE32(d[n:]) != specCRC32(d[:n]) {
		return
	}
	flags := d[1]
	if flags&0x3c != 0 || flags&0x03 != 0 {
		return // reserved bits; more than one filter is outside "LZMA2 only"
	}
	pos := 2
	if flags&0x40 != 0 {
		v, k, vok := specVarint(d[pos:n], lenient)
		if !vok || v >= 1<<63 {
			return
		}
		csize = int64(v)
		pos += k
	}
	if flags&0x80 != 0 {
		v, k, vok := specVarint(d[pos:n], lenient)
		if !vok || v >= 1<<63 {
			return
		}
		usize = int64(v)
		pos += k
	}
	// filter flags: id 0x21, size of properties 1, dictionary byte (bits 6-7 reserved, value <= 40)
	id, k, vok := specVarint(d[pos:n], lenient)
	if !vok || id != 0x21 {
		return
	}
	pos += k
	if pos+2 > n || d[pos] != 1 || d[pos+1] > 40 {
		return
	}
	dictCode = d[pos+1]
	pos += 2
	for ; pos < n; pos++ {
		if d[pos] != 0 {
			return
		}
	}
	return csize, usize, dictCode, true
}

func specPad(n int64) int64 { return (4 - n%4) % 4 }

// specBlock is what the reference parser measured for one block.
type specBlock struct {
	headerLen, compressed, uncompressed int
	dictSize                            uint32
	chunks                              []lzma.VSpecChunk
}

// specXZDecode is the independent reference decoder for a complete
// single- or multi-stream .xz file restricted to LZMA2 blocks. It enforces
// every MUST of the format that applies: header/footer magic, flags and
// CRCs, block header layout, declared sizes, LZMA2 payload (strict, see
// lzma.VSpecLZMA2Decode), zero padding, check value, index contents,
// backward size, stream padding.
func specXZDecode(z []byte) (content []byte, blocks []specBlock, ok bool) {
	pos := 0
	streams := 0
	for pos < len(z) {
		// stream padding
		if streams > 0 && pos+4 <= len(z) && z[pos] == 0 && z[pos+1] == 0 && z[pos+2] == 0 && z[pos+3] == 0 {
			pos += 4
			continue
		}
		if pos+12 > len(z) {
			return nil, nil, false
		}
		ck, hok := specHeader(z[pos : pos+12])
		if !hok {
			return nil, nil, false
		}
		pos += 12
		cs := specCheckSize(ck)
		type rec struct{ unpadded, uncompressed int64 }
		var recs []rec
		for {
			if pos >= len(z) {
				return nil, nil, false
			}
			if z[pos] == 0 {
				break
			}
			hl := (int(z[pos]) + 1) * 4
			if pos+hl > len(z) {
				return nil, nil, false
			}
			csz, usz, code, bok := specBlockHeader(z[pos:pos+hl], false)
			if !bok {
				return nil, nil, false
			}
			dict := uint32(1<<32 - 1)
			if code < 40 {
				dict = uint32(2|code&1) << (uint(code)/2 + 11)
			}
			pos += hl
			out, used, chunks, lok := lzma.VSpecLZMA2Decode(z[pos:], dict)
			if !lok {
				return nil, nil, false
			}
			if (csz >= 0 && csz != int64(used)) || (usz >= 0 && usz != int64(len(out))) {
				return nil, nil, false
			}
			pos += used
			for p := specPad(int64(used)); p > 0; p-- {
				if pos >= len(z) || z[pos] != 0 {
					return nil, nil, false
				}
				pos++
			}
			if pos+cs > len(z) {
				return nil, nil, false
			}
			if cs > 0 {
				sum := specCheck(ck, out)
				for i := 0; i < cs; i++ {
					if z[pos+i] != sum[i] {
						return nil, nil, false
					}
				}
			}
			pos += cs
			content = append(content, out...)
			blocks = append(blocks, specBlock{hl, used, len(out), dict, chunks})
			recs = append(recs, rec{int64(hl + used + cs), int64(len(out))})
		}
		// index
		istart := pos
		pos++
		cnt, k, vok := specVarint(z[pos:], false)
		if !vok || cnt != uint64(len(recs)) {
			return nil, nil, false
		}
		pos += k
		for _, r := range recs {
			u, k1, ok1 := specVarint(z[pos:], false)
			if !ok1 {
				return nil, nil, false
			}
			pos += k1
			c, k2, ok2 := specVarint(z[pos:], false)
			if !ok2 {
				return nil, nil, false
			}
			pos += k2
			if int64(u) != r.unpadded || int64(c) != r.uncompressed {
				return nil, nil, false
			}
		}
		for (pos-istart)%4 != 0 {
			if pos >= len(z) || z[pos] != 0 {
				return nil, nil, false
			}
			pos++
		}
		if pos+4 > len(z) || specLE32(z[pos:]) != specCRC32(z[istart:pos]) {
			return nil, nil, false
		}
		pos += 4
		isize := pos - istart
		if pos+12 > len(z) {
			return nil, nil, false
		}
		bs, fck, fok := specFooter(z[pos : pos+12])
		if !fok || fck != ck || bs != int64(isize) {
			return nil, nil, false
		}
		pos += 12
		streams++
	}
	return content, blocks, streams > 0
}

// specCheck computes the block check with the standard library directly
// (CRC32 IEEE, CRC64 ECMA little endian, SHA-256).
func specCheck(ck byte, p []byte) []byte {
	switch ck {
	case 1:
		c := specCRC32(p)
		return []byte{byte(c), byte(c >> 8), byte(c >> 16), byte(c >> 24)}
	case 4:
		h := crc64.New(crc64.MakeTable(crc64.ECMA))
		h.Write(p)
		c := h.Sum64()
		out := make([]byte, 8)
		for i := range out {
			out[i] = byte(c >> (8 * uint(i)))
		}
		return out
	case 10:
		h := sha256.New()
		h.Write(p)
		return h.Sum(nil)
	}
	return nil
}
