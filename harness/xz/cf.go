package xz

import (
	"bytes"
	"io"

	"github.com/ulikunitz/xz/lzma"
)

// Lemmas CF1-CF3 (C14): non-interference. Two live instances share no heap
// object created after package initialisation (CF1); library code never
// writes a package-level variable or an object created by package
// initialisation (CF2, enforced by the interpreter on every store of every
// path of these harnesses); an instance's output does not depend on other
// instances that ran before it or interleaved with it (CF3: sync.Pool is
// modelled faithfully - Get hands back what was Put). Together: every
// interleaving of steps of distinct instances is equivalent to the
// sequential runs and no two accesses can race.

func vCFWrite(cfg WriterConfig, data []byte) []byte {
	var b bytes.Buffer
	w, err := cfg.NewWriter(&b)
	vAssert(err == nil, "writer constructed")
	_, err = w.Write(data)
	vAssert(err == nil, "write")
	vAssert(w.Close() == nil, "close")
	return b.Bytes()
}

func VH_CF_xz() {
	vForbidGlobalWrites()
	cfg := WriterConfig{DictCap: 4096, BufSize: 4096}
	if vNondetBool("binTree") {
		cfg.Matcher = lzma.BinaryTree
	}
	if vNondetBool("blocks") {
		cfg.BlockSize = 4
		cfg.CheckSum = SHA256
	}
	x, y := []byte("abcabcabcXabcabc"), []byte{0, 0, 9, 9, 0, 0, 9, 9, 1}
	soloX := vCFWrite(cfg, x)
	soloY := vCFWrite(cfg, y)
	// two writers alive at the same time, steps interleaved
	var bx, by bytes.Buffer
	wx, err := cfg.NewWriter(&bx)
	vAssert(err == nil, "writer X")
	wy, err := cfg.NewWriter(&by)
	vAssert(err == nil, "writer Y")
	vAssert(!vIsSym() || vSharedObjects(wx, wx) > 10, "the reachability oracle sees a writer's own objects")
	vAssert(vSharedObjects(wx, wy) == 0, "two writers share no heap object")
	k := vConcretize(int(vNondetU8("k")) % 3 * 5)
	wx.Write(x[:k])
	wy.Write(y[:3])
	vAssert(vSharedObjects(wx, wy) == 0, "two writers share no heap object after writing")
	wx.Write(x[k:])
	if vNondetBool("closeYfirst") {
		wy.Write(y[3:])
		vAssert(wy.Close() == nil, "close Y")
		vAssert(wx.Close() == nil, "close X")
	} else {
		vAssert(wx.Close() == nil, "close X")
		wy.Write(y[3:])
		vAssert(wy.Close() == nil, "close Y")
	}
	vAssert(bytes.Equal(bx.Bytes(), soloX) && bytes.Equal(by.Bytes(), soloY), "interleaved writers produce exactly their solo output")
	// an instance created after others have finished is unaffected by them
	vAssert(bytes.Equal(vCFWrite(cfg, x), soloX), "output is a function of configuration and input only")
	// readers
	rx, err := NewReader(bytes.NewReader(soloX))
	vAssert(err == nil, "reader X")
	ry, err := NewReader(bytes.NewReader(soloY))
	vAssert(err == nil, "reader Y")
	vAssert(vSharedObjects(rx, ry) == 0, "two readers share no heap object")
	vAssert(vSharedObjects(rx, wx) == 0, "reader and writer share no heap object")
	px, py := make([]byte, 5), make([]byte, 4)
	var ox, oy []byte
	for i := 0; i < 12; i++ {
		n, e1 := rx.Read(px)
		ox = append(ox, px[:n]...)
		m, e2 := ry.Read(py)
		oy = append(oy, py[:m]...)
		vAssert(vSharedObjects(rx, ry) == 0, "two readers share no heap object while reading")
		if e1 == io.EOF && e2 == io.EOF {
			break
		}
	}
	vAssert(bytes.Equal(ox, x) && bytes.Equal(oy, y), "interleaved readers deliver their own content")
}
