package xz

import (
	"bytes"
	"io"

	"github.com/ulikunitz/xz/lzma"
)


func vSmallCfg() WriterConfig {
	return WriterConfig{DictCap: 4096, BufSize: 4096}
}

func vMakeXZ(cfg WriterConfig, data []byte) []byte {
	var buf bytes.Buffer
	w, err := cfg.NewWriter(&buf)
	if err != nil {
		panic(err)
	}
	if _, err = w.Write(data); err != nil {
		panic(err)
	}
	if err = w.Close(); err != nil {
		panic(err)
	}
	return buf.Bytes()
}

func VH_E2E_xz_roundtrip() {
	data := []byte("abcabcabc")
	z := vMakeXZ(vSmallCfg(), data)
	vObs("len", uint64(len(z)))
	r, err := NewReader(bytes.NewReader(z))
	vAssert(err == nil, "reader opens")
	out, err := io.ReadAll(r)
	vAssert(err == nil, "reads without error")
	vAssert(bytes.Equal(out, data), "round trip")
}

var vText = []byte("abcabcabcXabcabc")

// vStreams: which stream configuration a harness uses.
func vStream(kind int) (z []byte, data []byte) {
	data = vText
	cfg := vSmallCfg()
	switch kind {
	case 0: // one block, CRC64
	case 1: // several blocks
		cfg.BlockSize = 6
	case 2: // no check
		cfg.NoCheckSum = true
	case 3: // CRC32, binary tree matcher
		cfg.CheckSum = CRC32
		cfg.Matcher = lzma.BinaryTree
	case 4: // SHA256
		cfg.CheckSum = SHA256
	case 5: // empty content
		data = nil
	}
	return vMakeXZ(cfg, data), data
}

func vKinds() int {
	if vThorough() {
		return 6
	}
	return 3
}

// E2E-cut (C05): every proper prefix of a valid file ends in an error that
// is not a clean end of stream; delivered bytes are a prefix of the content.
func VH_CUT_xz() {
	kind := vConcretize(int(vNondetU8("kind")) % vKinds())
	z, data := vStream(kind)
	frag := vConcretize(int(vNondetU8("frag")) % 3)
	cut := vConcretize(int(vNondetU16("cut")) % len(z))
	src := &vSrc{data: z, end: cut, frag: frag}
	r, err := NewReader(src)
	if err != nil {
		vAssert(err != io.EOF, "constructor error is not io.EOF")
		return
	}
	out, err := vReadAll(r, 5)
	vAssert(err != nil && err != io.EOF, "truncated file is not a clean end of stream")
	vAssert(vIsPrefix(out, data), "delivered bytes are a prefix of the content")
}

// IO2 (C09): a failing source surfaces as that error.
func VH_IO2_xz() {
	kind := vConcretize(int(vNondetU8("kind")) % vKinds())
	z, data := vStream(kind)
	frag := vConcretize(int(vNondetU8("frag")) % 3)
	single := vNondetBool("single")
	at := vConcretize(int(vNondetU16("at")) % (len(z) + 1))
	src := &vSrc{data: z, end: at, frag: frag, failErr: vErrSrc}
	r, err := ReaderConfig{SingleStream: single}.NewReader(src)
	if err != nil {
		vAssert(err == vErrSrc, "constructor returns the source's error")
		return
	}
	out, err := vReadAll(r, 7)
	vAssert(err != io.EOF, "failing source never gives a clean end")
	vAssert(err == vErrSrc, "Read returns the source's error")
	vAssert(vIsPrefix(out, data), "delivered bytes are a prefix of the content")
}

// IO1 (C09): sink failures are never masked and never cause a panic.
func VH_IO1_xz() {
	kind := vConcretize(int(vNondetU8("kind")) % 3)
	cfg := vSmallCfg()
	switch kind {
	case 1:
		cfg.BlockSize = 2
	case 2:
		cfg.NoCheckSum = true
	}
	sink := &vSink{failFrom: -1}
	sink.failFrom = vConcretize(int(vNondetU8("failAt"))%16) - 1
	sink.once = vNondetBool("once")
	sink.partial = vConcretize(int(vNondetU8("partial")) % 3)
	anyErr := false
	w, err := cfg.NewWriter(sink)
	if err != nil {
		anyErr = true
	} else {
		if _, err = w.Write([]byte("abc")); err != nil {
			anyErr = true
		}
		if _, err = w.Write([]byte("de")); err != nil {
			anyErr = true
		}
		if err = w.Close(); err != nil {
			anyErr = true
		}
		err2 := w.Close()
		vAssert(err2 != nil, "second Close fails")
	}
	if sink.failed {
		vAssert(anyErr, "a failing sink surfaces as an error from some call")
	} else {
		vAssert(!anyErr, "no error without a sink failure")
		r, err := NewReader(&vSrc{data: sink.buf, end: len(sink.buf)})
		vAssert(err == nil, "output opens")
		out, err := vReadAll(r, 16)
		vAssert(err == io.EOF && string(out) == "abcde", "success means a complete valid stream")
	}
}

// C13: output independent of read sizes and source fragmentation; EOF sticky.
func VH_FRAG_xz() {
	kind := vConcretize(int(vNondetU8("kind")) % vKinds())
	z, data := vStream(kind)
	frag := vConcretize(int(vNondetU8("frag")) % 4)
	vAssume((kind*4+frag)%vShards() == vShardIdx())
	r, err := NewReader(&vSrc{data: z, end: len(z), frag: frag})
	vAssert(err == nil, "valid stream opens under any fragmentation")
	nsym := 3
	if vThorough() {
		nsym = 5
	}
	out, err := vReadSched(r, nsym)
	vAssert(err == io.EOF, "clean end of stream")
	vAssert(bytes.Equal(out, data), "same bytes for every read schedule and fragmentation")
	for i := 0; i < 3; i++ {
		p := make([]byte, 1+i)
		n, err := r.Read(p)
		vAssert(n == 0 && err == io.EOF, "EOF is sticky")
	}
}

// C12: concatenated streams and padding.
func VH_MS_xz() {
	cfgA := vSmallCfg()
	cfgB := vSmallCfg()
	cfgB.NoCheckSum = true
	a := vMakeXZ(cfgA, []byte("abc"))
	b := vMakeXZ(cfgB, []byte("de"))
	e := vMakeXZ(cfgA, nil)
	maxPad := 5
	if vThorough() {
		maxPad = 16
	}
	shape := vConcretize(int(vNondetU8("shape")) % 4)
	p0 := 0
	if shape == 3 {
		p0 = 1 + vConcretize(int(vNondetU8("leadingPad"))%8)
	}
	p1 := vConcretize(int(vNondetU8("pad1")) % (maxPad + 1))
	vAssume((shape+4*p1)%vShards() == vShardIdx())
	p2 := vConcretize(int(vNondetU8("pad2")) % (maxPad + 1))
	single := vNondetBool("single")
	var in, want []byte
	in = append(in, make([]byte, p0)...)
	in = append(in, a...)
	want = append(want, "abc"...)
	in = append(in, make([]byte, p1)...)
	second := true
	switch shape {
	case 0, 3:
		in = append(in, b...)
		want = append(want, "de"...)
	case 1:
		in = append(in, e...)
		in = append(in, b...)
		want = append(want, "de"...)
	case 2:
		second = false
	}
	in = append(in, make([]byte, p2)...)
	// optionally one non-zero byte inside the padding
	garbage := vNondetBool("garbage")
	if garbage {
		vAssume(p1+p2 > 0)
		pos := vConcretize(int(vNondetU8("gpos")) % (p1 + p2))
		g := vNondetU8("g") | 1
		if pos < p1 {
			in[p0+len(a)+pos] = g
		} else {
			in[len(in)-p2+(pos-p1)] = g
		}
	}
	r, err := ReaderConfig{SingleStream: single}.NewReader(&vSrc{data: in, end: len(in)})
	if p0 > 0 {
		vAssert(err != nil, "padding before the first stream is an error")
		return
	}
	vAssert(err == nil, "first stream opens")
	out, err := vReadAll(r, 4)
	if single {
		vAssert(string(out) == "abc", "SingleStream yields exactly the first stream")
		if len(in) > len(a) {
			vAssert(err != io.EOF, "SingleStream: anything after the stream is an error")
		} else {
			vAssert(err == io.EOF, "SingleStream: clean end when nothing follows")
		}
		return
	}
	ok := p1%4 == 0 && p2%4 == 0 && !garbage
	if !second {
		ok = (p1+p2)%4 == 0 && !garbage
	}
	if ok {
		vAssert(err == io.EOF, "well-formed chain ends cleanly")
		vAssert(bytes.Equal(out, want), "chain decodes to the concatenation")
	} else {
		vAssert(err != io.EOF, "bad padding or trailing garbage is an error")
		vAssert(vIsPrefix(out, want), "what was delivered is a prefix of the concatenation")
	}
}

// C05, last sentence: multi-stream files; every cut that is not exactly on a
// stream or 4-byte padding boundary must give an error.
func VH_CUT_ms() {
	cfgB := vSmallCfg()
	cfgB.NoCheckSum = true
	a := vMakeXZ(vSmallCfg(), []byte("abc"))
	b := vMakeXZ(cfgB, []byte("de"))
	pad := 4 * vConcretize(int(vNondetU8("pad"))%3)
	var in []byte
	in = append(in, a...)
	in = append(in, make([]byte, pad)...)
	in = append(in, b...)
	in = append(in, make([]byte, 4)...)
	frag := vConcretize(int(vNondetU8("frag")) % 3)
	// cuts inside the first stream are VH_CUT_xz; here from the end of A on
	cut := len(a) + vConcretize(int(vNondetU16("cut"))%(len(in)-len(a)))
	r, err := NewReader(&vSrc{data: in, end: cut, frag: frag})
	vAssert(err == nil, "first stream opens")
	out, err := vReadAll(r, 5)
	boundary := false
	if cut <= len(a)+pad {
		boundary = (cut-len(a))%4 == 0 // end of A or a padding boundary
	} else if cut >= len(a)+pad+len(b) {
		boundary = (cut-len(a)-pad-len(b))%4 == 0
	}
	if boundary {
		vAssert(err == io.EOF, "cut on a stream or padding boundary is a valid shorter file")
		if cut >= len(a)+pad+len(b) {
			vAssert(string(out) == "abcde", "both streams decoded")
		} else {
			vAssert(string(out) == "abc", "first stream decoded")
		}
	} else {
		vAssert(err != nil && err != io.EOF, "cut inside a later stream or inside padding is an error")
		vAssert(vIsPrefix(out, []byte("abcde")), "delivered bytes are a prefix of the content")
	}
}
