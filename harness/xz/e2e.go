package xz

import (
	"bytes"
	"errors"
	"io"
)

var vErrSrc = errors.New("verif: source failure")
var vErrSink = errors.New("verif: sink failure")

func vSmallCfg() WriterConfig {
	return WriterConfig{DictCap: 4096, BufSize: 4096}
}

func vMakeXZ(cfg WriterConfig, data []byte) []byte {
	var buf bytes.Buffer
	w, err := cfg.NewWriter(&buf)
	if err != nil {
		panic(err)
	}
	if _, err = w.Write(data); err != nil {
		panic(err)
	}
	if err = w.Close(); err != nil {
		panic(err)
	}
	return buf.Bytes()
}

func VH_E2E_xz_roundtrip() {
	data := []byte("abcabcabc")
	z := vMakeXZ(vSmallCfg(), data)
	vObs("len", uint64(len(z)))
	r, err := NewReader(bytes.NewReader(z))
	vAssert(err == nil, "reader opens")
	out, err := io.ReadAll(r)
	vAssert(err == nil, "reads without error")
	vAssert(bytes.Equal(out, data), "round trip")
}
