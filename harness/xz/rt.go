package xz

import (
	"bytes"
	"io"

	"github.com/ulikunitz/xz/lzma"
)

// RT (C01, C02, C16 writer side): the real xz writer on every input over a
// two-letter alphabet {0x00, 'a'} up to a bounded length, every split of the
// input over two Write calls (zero-length writes included), both matchers,
// several block sizes, checks and properties. The output is judged twice:
// by the library's own reader (round trip) and by the independent reference
// decoder of spec.go / lzma/spec_lzma.go (validity for other implementations).

func vRTLen() int {
	if vThorough() {
		return 8
	}
	return 6
}

// vBits returns n bytes, each an arbitrary choice between lo and hi.
func vBits(name string, n int, lo, hi byte) []byte {
	p := make([]byte, n)
	for i := range p {
		p[i] = lo
		if vConcretize(int(vNondetU8(name))&1) == 1 {
			p[i] = hi
		}
	}
	return p
}

func VH_RT_xz() {
	cfg := WriterConfig{DictCap: 4096, BufSize: 4096}
	variant := vConcretize(int(vNondetU8("variant")) % 8)
	vAssume(variant%vShards() == vShardIdx()%8)
	if variant&1 != 0 {
		cfg.Matcher = lzma.BinaryTree
	}
	blockSize := int64(0)
	switch variant >> 1 {
	case 1:
		blockSize = 3
		cfg.CheckSum = CRC32
	case 2:
		blockSize = 1
		cfg.NoCheckSum = true
		cfg.Properties = &lzma.Properties{LC: 0, LP: 2, PB: 0}
	case 3:
		cfg.CheckSum = SHA256
		cfg.Properties = &lzma.Properties{LC: 1, LP: 3, PB: 4}
		cfg.BufSize = 273
	}
	cfg.BlockSize = blockSize
	n := vConcretize(int(vNondetU8("n")) % (vRTLen() + 1))
	vAssume(vShards() <= 8 || n%2 == vShardIdx()/8)
	data := vBits("bit", n, 0, 'a')
	// tiny inputs are always stored as raw LZMA2 chunks; a redundant tail makes the
	// writer emit compressed chunks as well
	split := vConcretize(int(vNondetU8("split")) % (n + 1))
	if n <= 2 && vConcretize(int(vNondetU8("tail"))%2) == 1 {
		data = append(data, "abababababababababababab"...)
		if split == n && vConcretize(int(vNondetU8("splitInTail"))%2) == 1 {
			split += 7
		}
		n = len(data)
	}
	var sink bytes.Buffer
	w, err := cfg.NewWriter(&sink)
	vAssert(err == nil, "valid configuration accepted")
	k, err := w.Write(data[:split])
	vAssert(err == nil && k == split, "first Write succeeds")
	k, err = w.Write(data[split:])
	vAssert(err == nil && k == n-split, "second Write succeeds")
	vAssert(w.Close() == nil, "Close succeeds")
	z := append([]byte(nil), sink.Bytes()...)
	// protocol: further calls fail and emit nothing
	vAssert(w.Close() != nil, "second Close fails")
	_, err = w.Write([]byte{1})
	vAssert(err != nil, "Write after Close fails")
	vAssert(sink.Len() == len(z), "calls after Close emit nothing")
	// (a) round trip through the library's reader
	r, err := NewReader(bytes.NewReader(z))
	vAssert(err == nil, "own output opens")
	out, err := vReadAll(r, 7)
	vAssert(err == io.EOF, "own output ends cleanly")
	vAssert(bytes.Equal(out, data), "round trip is lossless")
	// (b) the reference decoder accepts it and recovers the input
	ref, blocks, ok := specXZDecode(z)
	vAssert(ok, "reference decoder accepts the emitted stream")
	vAssert(bytes.Equal(ref, data), "reference decoder recovers the input")
	vAssert(len(z)%4 == 0, "stream length is a multiple of four")
	for i, b := range blocks {
		if blockSize > 0 && i < len(blocks)-1 {
			vAssert(int64(b.uncompressed) == blockSize, "every block but the last holds exactly BlockSize bytes")
		}
		if blockSize > 0 {
			vAssert(int64(b.uncompressed) <= blockSize, "no block exceeds BlockSize")
		}
		vAssert(b.dictSize >= uint32(cfg.DictCap), "declared dictionary size covers the capacity")
		for _, c := range b.chunks {
			vAssert(c.Compressed <= 1<<16 && c.Uncompressed <= 1<<21, "LZMA2 chunk size limits")
		}
	}
	if blockSize > 0 && n > 0 {
		vAssert(int64(len(blocks)) == (int64(n)+blockSize-1)/blockSize, "number of blocks = ceil(n / BlockSize)")
	}
}

// ---- GEN-xz (C03): files laid out by the reference writer ------------------

// specXZEncode writes one stream: for each block an LZMA2 payload (already
// encoded) with its content, optional size fields, the given check.
func specXZEncode(ck byte, dictCode byte, payloads, contents [][]byte, withSizes []bool) []byte {
	var z []byte
	hd := []byte{0xfd, '7', 'z', 'X', 'Z', 0, 0, ck, 0, 0, 0, 0}
	c := specCRC32(hd[6:8])
	hd[8], hd[9], hd[10], hd[11] = byte(c), byte(c>>8), byte(c>>16), byte(c>>24)
	z = append(z, hd...)
	type rec struct{ unpadded, uncompressed uint64 }
	var recs []rec
	for i, p := range payloads {
		var bh []byte
		bh = append(bh, 0, 0)
		if withSizes[i] {
			bh[1] |= 0xc0
			bh = specPutVarint(bh, uint64(len(p)))
			bh = specPutVarint(bh, uint64(len(contents[i])))
		}
		bh = append(bh, 0x21, 1, dictCode)
		for len(bh)%4 != 0 {
			bh = append(bh, 0)
		}
		bh[0] = byte((len(bh)+4)/4 - 1)
		c := specCRC32(bh)
		bh = append(bh, byte(c), byte(c>>8), byte(c>>16), byte(c>>24))
		z = append(z, bh...)
		z = append(z, p...)
		for k := specPad(int64(len(p))); k > 0; k-- {
			z = append(z, 0)
		}
		sum := specCheck(ck, contents[i])
		z = append(z, sum...)
		recs = append(recs, rec{uint64(len(bh) + len(p) + len(sum)), uint64(len(contents[i]))})
	}
	idx := []byte{0}
	idx = specPutVarint(idx, uint64(len(recs)))
	for _, r := range recs {
		idx = specPutVarint(idx, r.unpadded)
		idx = specPutVarint(idx, r.uncompressed)
	}
	for len(idx)%4 != 0 {
		idx = append(idx, 0)
	}
	c = specCRC32(idx)
	idx = append(idx, byte(c), byte(c>>8), byte(c>>16), byte(c>>24))
	z = append(z, idx...)
	bs := uint32(len(idx)/4 - 1)
	ft := []byte{0, 0, 0, 0, byte(bs), byte(bs >> 8), byte(bs >> 16), byte(bs >> 24), 0, ck, 'Y', 'Z'}
	c = specCRC32(ft[4:10])
	ft[0], ft[1], ft[2], ft[3] = byte(c), byte(c>>8), byte(c>>16), byte(c>>24)
	return append(z, ft...)
}

func specPutVarint(p []byte, v uint64) []byte {
	for v >= 0x80 {
		p = append(p, byte(v)|0x80)
		v >>= 7
	}
	return append(p, byte(v))
}

func VH_GEN_xz() {
	cki := vConcretize(int(vNondetU8("check")) % 4)
	vAssume(cki%vShards() == vShardIdx())
	ck := vChecks[cki]
	nb := vConcretize(int(vNondetU8("blocks")) % 3)
	dictCode := []byte{0, 3, 17}[vConcretize(int(vNondetU8("dictCode"))%3)]
	var payloads, contents [][]byte
	var sizes []bool
	var all []byte
	for i := 0; i < nb; i++ {
		var chunks []lzma.VSpecLZMA2Chunk
		switch vConcretize(int(vNondetU8("payload")) % 5) {
		case 4: // a match whose distance exceeds the smallest reader window but not the declared dictionary
			if dictCode < 3 {
				vAssume(false) // needs a declared dictionary above 4.5 KiB
			}
			raw := make([]byte, 5000)
			for k := range raw {
				raw[k] = byte((k*11 + 7) % 253)
			}
			chunks = []lzma.VSpecLZMA2Chunk{{Kind: 1, Raw: raw},
				{Kind: 5, LC: 3, LP: 0, PB: 2, Ops: []lzma.VSpecOp{{Kind: 1, Dist: 4499, Len: 20}, {Kind: 0, Byte: '!'}}}}
		case 0: // empty block: only the end chunk
		case 1:
			chunks = []lzma.VSpecLZMA2Chunk{{Kind: 1, Raw: []byte("raw!")}}
		case 2:
			chunks = []lzma.VSpecLZMA2Chunk{{Kind: 6, LC: 3, LP: 0, PB: 2, Ops: []lzma.VSpecOp{{Kind: 0, Byte: 'x'}, {Kind: 1, Dist: 0, Len: 5}, {Kind: 2}}},
				{Kind: 2, Raw: []byte("yz")}, {Kind: 4, Ops: []lzma.VSpecOp{{Kind: 1, Dist: 7, Len: 4}, {Kind: 3, Rep: 1, Len: 2}}}}
		case 3:
			chunks = []lzma.VSpecLZMA2Chunk{{Kind: 6, LC: 0, LP: 4, PB: 4, Ops: []lzma.VSpecOp{{Kind: 0, Byte: 0}, {Kind: 2}, {Kind: 0, Byte: 1}}},
				{Kind: 5, LC: 4, LP: 0, PB: 0, Ops: []lzma.VSpecOp{{Kind: 1, Dist: 2, Len: 3}}}}
		}
		p, c, ok := lzma.VSpecLZMA2Encode(chunks)
		vAssert(ok, "generator produces a legal payload")
		payloads = append(payloads, p)
		contents = append(contents, c)
		sizes = append(sizes, vNondetBool("withSizes"))
		all = append(all, c...)
	}
	z := specXZEncode(ck, dictCode, payloads, contents, sizes)
	ref, _, rok := specXZDecode(z)
	vAssert(rok && bytes.Equal(ref, all), "reference decoder reads the reference writer")
	// stream padding, reader window and source fragmentation: derived from the
	// other choices in the quick tier, independent choices in the thorough tier
	pad, dc, frag := nb%2, (nb+int(dictCode))%3, int(ck)%2
	if vThorough() {
		pad, dc, frag = vConcretize(int(vNondetU8("pad"))%2), vConcretize(int(vNondetU8("dictCap"))%3), vConcretize(int(vNondetU8("frag"))%2)
	}
	z = append(z, make([]byte, 4*pad)...)
	cfg := ReaderConfig{DictCap: []int{0, 4096, 1 << 20}[dc]}
	r, err := cfg.NewReader(&vSrc{data: z, end: len(z), frag: frag})
	vAssert(err == nil, "valid file opens")
	out, rerr := vReadAll(r, 5)
	vAssert(rerr == io.EOF, "valid file ends cleanly")
	vAssert(bytes.Equal(out, all), "decoded bytes = reference decoder's bytes")
}
