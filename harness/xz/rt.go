package xz

import (
	"bytes"
	"io"

	"github.com/ulikunitz/xz/lzma"
)

// RT (C01, C02, C16 writer side): the real xz writer on every input over a
// two-letter alphabet {0x00, 'a'} up to a bounded length, every split of the
// input over two Write calls (zero-length writes included), both matchers,
// several block sizes, checks and properties. The output is judged twice:
// by the library's own reader (round trip) and by the independent reference
// decoder of spec.go / lzma/spec_lzma.go (validity for other implementations).

func vRTLen() int {
	if vThorough() {
		return 10
	}
	return 6
}

// vBits returns n bytes, each an arbitrary choice between lo and hi.
func vBits(name string, n int, lo, hi byte) []byte {
	p := make([]byte, n)
	for i := range p {
		p[i] = lo
		if vConcretize(int(vNondetU8(name))&1) == 1 {
			p[i] = hi
		}
	}
	return p
}

func VH_RT_xz() {
	cfg := WriterConfig{DictCap: 4096, BufSize: 4096}
	variant := vConcretize(int(vNondetU8("variant")) % 8)
	vAssume(variant%vShards() == vShardIdx()%8)
	if variant&1 != 0 {
		cfg.Matcher = lzma.BinaryTree
	}
	blockSize := int64(0)
	switch variant >> 1 {
	case 1:
		blockSize = 3
		cfg.CheckSum = CRC32
	case 2:
		blockSize = 1
		cfg.NoCheckSum = true
		cfg.Properties = &lzma.Properties{LC: 0, LP: 2, PB: 0}
	case 3:
		cfg.CheckSum = SHA256
		cfg.Properties = &lzma.Properties{LC: 1, LP: 3, PB: 4}
		cfg.BufSize = 273
	}
	cfg.BlockSize = blockSize
	n := vConcretize(int(vNondetU8("n")) % (vRTLen() + 1))
	vAssume(vShards() <= 8 || n%2 == vShardIdx()/8)
	data := vBits("bit", n, 0, 'a')
	split := vConcretize(int(vNondetU8("split")) % (n + 1))
	var sink bytes.Buffer
	w, err := cfg.NewWriter(&sink)
	vAssert(err == nil, "valid configuration accepted")
	k, err := w.Write(data[:split])
	vAssert(err == nil && k == split, "first Write succeeds")
	k, err = w.Write(data[split:])
	vAssert(err == nil && k == n-split, "second Write succeeds")
	vAssert(w.Close() == nil, "Close succeeds")
	z := append([]byte(nil), sink.Bytes()...)
	// protocol: further calls fail and emit nothing
	vAssert(w.Close() != nil, "second Close fails")
	_, err = w.Write([]byte{1})
	vAssert(err != nil, "Write after Close fails")
	vAssert(sink.Len() == len(z), "calls after Close emit nothing")
	// (a) round trip through the library's reader
	r, err := NewReader(bytes.NewReader(z))
	vAssert(err == nil, "own output opens")
	out, err := vReadAll(r, 7)
	vAssert(err == io.EOF, "own output ends cleanly")
	vAssert(bytes.Equal(out, data), "round trip is lossless")
	// (b) the reference decoder accepts it and recovers the input
	ref, blocks, ok := specXZDecode(z)
	vAssert(ok, "reference decoder accepts the emitted stream")
	vAssert(bytes.Equal(ref, data), "reference decoder recovers the input")
	vAssert(len(z)%4 == 0, "stream length is a multiple of four")
	for i, b := range blocks {
		if blockSize > 0 && i < len(blocks)-1 {
			vAssert(int64(b.uncompressed) == blockSize, "every block but the last holds exactly BlockSize bytes")
		}
		if blockSize > 0 {
			vAssert(int64(b.uncompressed) <= blockSize, "no block exceeds BlockSize")
		}
		vAssert(b.dictSize >= uint32(cfg.DictCap), "declared dictionary size covers the capacity")
		for _, c := range b.chunks {
			vAssert(c.Compressed <= 1<<16 && c.Uncompressed <= 1<<21, "LZMA2 chunk size limits")
		}
	}
	if blockSize > 0 && n > 0 {
		vAssert(int64(len(blocks)) == (int64(n)+blockSize-1)/blockSize, "number of blocks = ceil(n / BlockSize)")
	}
}
