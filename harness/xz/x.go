package xz

import (
	"bytes"
	"io"
)

// Lemmas X1-X3: integer/varint helpers and the container structures,
// marshal and unmarshal, against spec.go.

func VH_X1_padLen() {
	n := vNondetI64("n")
	vAssume(n >= 0)
	k := padLen(n)
	vAssert(0 <= k && k < 4, "0 <= pad < 4")
	vAssert((n+int64(k))%4 == 0, "n + pad is a multiple of 4")
	vAssert(int64(k) == specPad(n), "pad = spec")
}

type vBR struct {
	p    []byte
	k    int
	fail error // returned after the data
}

func (r *vBR) ReadByte() (byte, error) {
	if r.k >= len(r.p) {
		if r.fail != nil {
			return 0, r.fail
		}
		return 0, io.EOF
	}
	c := r.p[r.k]
	r.k++
	return c, nil
}

func VH_X1_uvarint_rt() {
	vUnwind(12)
	x := vNondetU64("x")
	p := make([]byte, 10)
	k := putUvarint(p, x)
	vAssert(1 <= k && k <= 10, "1..10 bytes")
	vAssert(k == specVarintLen(x), "length = spec (minimal)")
	if x < 1<<63 {
		vAssert(k <= 9, "63-bit values need at most 9 bytes")
	}
	br := &vBR{p: p[:k]}
	y, n, err := readUvarint(br)
	vAssert(err == nil && y == x && n == k, "readUvarint(putUvarint(x)) = x, same length")
	v, m, ok := specVarint(p[:k], x >= 1<<63)
	vAssert(ok && v == x && m == k, "spec decoder reads the library's encoding")
}

func VH_X1_uvarint_read() {
	vUnwind(12)
	n := vConcretize(int(vNondetU8("n")) % 12)
	p := vNondetBytes("p", n)
	br := &vBR{p: p}
	if vNondetBool("srcfails") {
		br.fail = vErrSrc
	}
	x, k, err := readUvarint(br)
	vAssert(k <= 11 && k <= n+0 || err != nil, "consumes only what it was given")
	sv, sk, sok := specVarint(p, true)
	if sok {
		vAssert(err == nil && x == sv && k == sk, "accepted encodings decode to the spec value")
	} else {
		vAssert(err != nil, "encodings that overflow or never terminate are rejected")
		if br.k >= len(p) && k <= 10 && n < 10 {
			if br.fail != nil {
				vAssert(err == vErrSrc, "source error is returned unchanged")
			} else {
				vAssert(err != nil, "early end is reported as an error")
			}
		}
	}
	_, _, strict := specVarint(p, false)
	if strict {
		vAssert(err == nil, "every spec-valid encoding is accepted")
	}
}

func VH_X1_le() {
	x := vNondetU32("x")
	p := make([]byte, 4)
	putUint32LE(p, x)
	vAssert(uint32LE(p) == x && specLE32(p) == x, "32-bit little endian round trip = spec")
	y := vNondetU64("y")
	q := make([]byte, 8)
	putUint64LE(q, y)
	vAssert(uint64(specLE32(q[:4]))|uint64(specLE32(q[4:]))<<32 == y, "64-bit little endian = spec")
}

// ---- X2: marshal = spec ---------------------------------------------------

func VH_X2_header() {
	h := header{flags: vNondetU8("flags")}
	data, err := h.MarshalBinary()
	vAssert((err == nil) == (specCheckSize(h.flags) >= 0), "marshals exactly the four check ids")
	if err != nil {
		return
	}
	ck, ok := specHeader(data)
	vAssert(ok && ck == h.flags, "spec parser accepts the header and recovers the check id")
	var g header
	vAssert(g.UnmarshalBinary(data) == nil && g == h, "library round trip")
}

func VH_X2_footer() {
	f := footer{indexSize: vNondetI64("indexSize"), flags: vNondetU8("flags")}
	data, err := f.MarshalBinary()
	valid := specCheckSize(f.flags) >= 0 && f.indexSize >= 4 && f.indexSize <= 1<<34 && f.indexSize%4 == 0
	vAssert((err == nil) == valid, "marshals exactly: valid check id, index size 4..2^34 in steps of 4")
	if err != nil {
		return
	}
	sz, ck, ok := specFooter(data)
	vAssert(ok && sz == f.indexSize && ck == f.flags, "spec parser accepts the footer and recovers backward size and flags")
	var g footer
	vAssert(g.UnmarshalBinary(data) == nil && g == f, "library round trip")
}

func vSize(name string) int64 {
	if vNondetBool(name + ".present") {
		v := vNondetI64(name)
		vAssume(v >= 0)
		return v
	}
	return -1
}

func VH_X2_blockHeader() {
	vUnwind(12)
	// EncodeDictCap itself is lemma H2.3 (C18); here a few capacities around code boundaries
	caps := []int64{1, 4097, 1 << 23, 1<<32 - 1}
	dictCap := caps[vConcretize(int(vNondetU8("cap"))%len(caps))]
	h := blockHeader{compressedSize: vSize("csize"), uncompressedSize: vSize("usize"),
		filters: []filter{&lzmaFilter{dictCap: dictCap}}}
	data, err := h.MarshalBinary()
	vAssert(err == nil, "marshal succeeds")
	vAssert(len(data)%4 == 0 && len(data) >= 8 && len(data) <= 1024, "length multiple of 4 within 8..1024")
	cs, us, code, ok := specBlockHeader(data, false)
	vAssert(ok, "spec parser accepts the block header")
	vAssert(cs == h.compressedSize && us == h.uncompressedSize, "sizes recovered (absent stays absent)")
	vAssert(code <= 40, "dictionary code in range")
	g := new(blockHeader)
	vAssert(g.UnmarshalBinary(data) == nil, "library parses its own block header")
	vAssert(g.compressedSize == h.compressedSize && g.uncompressedSize == h.uncompressedSize, "library round trip of sizes")
	lf, isL := g.filters[0].(*lzmaFilter)
	vAssert(len(g.filters) == 1 && isL && lf.dictCap >= dictCap, "declared dictionary covers the capacity")
}

// the filter flags for every capacity (sizes absent)
func VH_X2_filter() {
	vUnwind(8)
	dictCap := vNondetI64("dictCap")
	vAssume(1 <= dictCap && dictCap <= 1<<32-1)
	f := lzmaFilter{dictCap: dictCap}
	d, err := f.MarshalBinary()
	vAssert(err == nil && len(d) == 3 && d[0] == 0x21 && d[1] == 1 && d[2] <= 40, "filter flags: id 0x21, one property byte <= 40")
	var g lzmaFilter
	vAssert(g.UnmarshalBinary(d) == nil && g.dictCap >= dictCap, "declared dictionary covers the capacity")
}

func vIndexHarness(nrec int, small bool) {
	recs := make([]record, nrec)
	for i := range recs {
		recs[i].unpaddedSize = vNondetI64("unpadded")
		recs[i].uncompressedSize = vNondetI64("uncompressed")
		vAssume(recs[i].unpaddedSize >= 0 && recs[i].uncompressedSize >= 0)
		if small {
			vAssume(recs[i].unpaddedSize < 1<<14 && recs[i].uncompressedSize < 1<<14)
		}
	}
	var buf bytes.Buffer
	n, err := writeIndex(&buf, recs)
	vAssert(err == nil && n == int64(buf.Len()), "index written, length reported")
	d := buf.Bytes()
	vAssert(len(d)%4 == 0, "index size is a multiple of 4")
	vAssert(d[0] == 0, "index indicator")
	pos := 1
	cnt, k, ok := specVarint(d[pos:], false)
	vAssert(ok && cnt == uint64(nrec), "record count")
	pos += k
	for i := 0; i < nrec; i++ {
		u, k1, ok1 := specVarint(d[pos:], false)
		pos += k1
		c, k2, ok2 := specVarint(d[pos:], false)
		pos += k2
		vAssert(ok1 && ok2 && int64(u) == recs[i].unpaddedSize && int64(c) == recs[i].uncompressedSize, "records in order, minimal varints")
	}
	for ; pos%4 != 0; pos++ {
		vAssert(d[pos] == 0, "zero padding")
	}
	vAssert(pos+4 == len(d), "CRC32 follows the padding")
	vAssert(specLE32(d[pos:]) == specCRC32(d[:pos]), "CRC32 covers indicator, count, records and padding")
	got, m, err := readIndexBody(bytes.NewReader(d[1:]), nrec)
	vAssert(err == nil && m == int64(len(d)-1) && len(got) == nrec, "library reads its own index")
	for i := range got {
		vAssert(got[i] == recs[i], "records round trip")
	}
}

// one record with arbitrary 63-bit sizes; zero records
func VH_X2_index1() {
	vUnwind(12)
	vIndexHarness(vConcretize(int(vNondetU8("nrec"))%2), false)
}

// two [three] records with sizes below 2^14 (varints of 1-2 bytes)
func VH_X2_index2() {
	vUnwind(12)
	n := 2
	if vThorough() {
		n = 3
	}
	vIndexHarness(n, true)
}

// ---- X3: unmarshal on arbitrary bytes = spec --------------------------------

// vSeal overwrites a 4-byte CRC field with the CRC32 of the bytes it covers
// when the harness runs in "sealed" mode. Arbitrary CRC bytes (unsealed) let the
// solver explore rejections; sealed fields make accepted inputs replayable, as
// a real CRC32 then stands where the uninterpreted one stood.
func vSeal(field []byte, covered []byte) {
	c := specCRC32(covered)
	field[0], field[1], field[2], field[3] = byte(c), byte(c>>8), byte(c>>16), byte(c>>24)
}


func VH_X3_header() {
	d := vNondetBytes("d", 12)
	if vNondetBool("sealed") {
		vSeal(d[8:12], d[6:8])
	}
	var h header
	err := h.UnmarshalBinary(d)
	ck, ok := specHeader(d)
	vAssert((err == nil) == ok, "header accepted iff spec-valid")
	if ok {
		vAssert(h.flags == ck, "check id recovered")
	}
	vAssert(ValidHeader(d) == ok, "ValidHeader agrees")
}

func VH_X3_footer() {
	d := vNondetBytes("d", 12)
	if vNondetBool("sealed") {
		vSeal(d[0:4], d[4:10])
	}
	var f footer
	err := f.UnmarshalBinary(d)
	sz, ck, ok := specFooter(d)
	vAssert((err == nil) == ok, "footer accepted iff spec-valid")
	if ok {
		vAssert(f.flags == ck && f.indexSize == sz, "flags and backward size recovered")
	}
}

func vHdrWords() int {
	if vThorough() {
		return 3 // 8..16 bytes
	}
	return 2 // 8, 12 bytes
}

func VH_X3_blockHeader() {
	vUnwind(12)
	words := 2 + vConcretize(int(vNondetU8("words"))%vHdrWords())
	n := words * 4
	d := vNondetBytes("d", n)
	d[0] = byte(words - 1)
	if vNondetBool("sealed") {
		vSeal(d[n-4:], d[:n-4])
	}
	var h blockHeader
	err := h.UnmarshalBinary(d)
	cs, us, code, strict := specBlockHeader(d, false)
	_, _, _, lenient := specBlockHeader(d, true)
	if strict {
		vAssert(err == nil, "every spec-valid LZMA2-only block header is accepted")
	}
	vAssert((err == nil) == lenient, "accepted iff valid up to the documented varint leniency")
	if err == nil {
		cs2, us2, code2, _ := specBlockHeader(d, true)
		if strict {
			cs2, us2, code2 = cs, us, code
		}
		vAssert(h.compressedSize == cs2 && h.uncompressedSize == us2, "sizes = spec")
		lf, isL := h.filters[0].(*lzmaFilter)
		vAssert(len(h.filters) == 1 && isL, "one LZMA2 filter")
		want := int64(1<<32 - 1)
		if code2 < 40 {
			want = int64(2|code2&1) << (uint(code2)/2 + 11)
		}
		vAssert(lf.dictCap == want, "dictionary size = spec formula")
	}
}

// readBlockHeader on a source that may end anywhere.
func VH_X3_readBlockHeader() {
	vUnwind(12)
	words := 2 + vConcretize(int(vNondetU8("words"))%2)
	n := words * 4
	d := vNondetBytes("d", n)
	first := vNondetU8("first")
	d[0] = first
	if vNondetBool("sealed") {
		vSeal(d[n-4:], d[:n-4])
	}
	avail := vConcretize(int(vNondetU8("avail")) % (n + 1))
	src := &vSrc{data: d, end: avail}
	h, k, err := readBlockHeader(src)
	if avail == 0 {
		vAssert(err != nil && h == nil && k == 0, "nothing to read: an error (the caller decides what end of input means here), nothing consumed")
		return
	}
	if first == 0 {
		vAssert(err != nil && h == nil && k == 1, "a zero size byte is not a block header (index indicator): one byte consumed, no header returned")
		return
	}
	need := (int(first) + 1) * 4
	if avail < need {
		vAssert(err != nil && h == nil, "short header is an error")
		return
	}
	if need == n {
		vAssert(k == n || err != nil, "whole header consumed")
		_, _, _, lenient := specBlockHeader(d, true)
		vAssert((err == nil) == lenient, "accepted iff valid")
	}
}

func VH_X3_indexBody() {
	vUnwind(12)
	maxLen := 10
	if vThorough() {
		maxLen = 11
	}
	n := vConcretize(int(vNondetU8("n")) % (maxLen + 1))
	d := vNondetBytes("d", n)
	expected := vConcretize(int(vNondetU8("expected")) % 3)
	if vNondetBool("sealed") {
		// locate the CRC field as the format lays it out: count, that many records, padding
		cnt, k, ok := specVarint(d, true)
		q := k
		for i := uint64(0); ok && i < cnt && i < 4; i++ {
			_, k1, ok1 := specVarint(d[q:], true)
			q += k1
			_, k2, ok2 := specVarint(d[q:], true)
			q += k2
			ok = ok1 && ok2
		}
		for (q+1)%4 != 0 {
			q++
		}
		if ok && q+4 <= n {
			vSeal(d[q:q+4], append([]byte{0}, d[:q]...))
		}
	}
	recs, m, err := readIndexBody(bytes.NewReader(d), expected)
	vAssert(m <= int64(n), "never consumes more than available")
	if err != nil {
		return
	}
	// accepted: the complete list of conditions of the spec must hold
	pos := 0
	cnt, k, ok := specVarint(d, true)
	vAssert(ok && cnt == uint64(expected) && len(recs) == expected, "record count equals the number of blocks seen")
	pos += k
	for i := 0; i < expected; i++ {
		u, k1, ok1 := specVarint(d[pos:], true)
		pos += k1
		c, k2, ok2 := specVarint(d[pos:], true)
		pos += k2
		vAssert(ok1 && ok2 && u < 1<<63 && c < 1<<63, "records are valid varints below 2^63")
		vAssert(recs[i].unpaddedSize == int64(u) && recs[i].uncompressedSize == int64(c), "record fields recovered")
	}
	for ; (pos+1)%4 != 0; pos++ {
		vAssert(d[pos] == 0, "index padding is zero")
	}
	vAssert(int64(pos+4) == m, "consumed exactly count, records, padding, CRC")
	full := append([]byte{0}, d[:pos]...)
	vAssert(specLE32(d[pos:]) == specCRC32(full), "index CRC32 matches")
}
