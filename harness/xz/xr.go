package xz

import (
	"bytes"
	"io"
)

// Lemmas XR1/XR2 (C04, C03, C05, C09, C11): the block and stream layers of
// the xz reader accept ("clean end") exactly when the complete list of
// consistency conditions of the format holds. Sources are arbitrary bytes;
// CRC32/CRC64/SHA-256 are uninterpreted from the first symbolic byte on, so
// the solver is free to "re-seal" any checksum field.

// vModelFilter is an arbitrary well-behaved decompression filter: Read call k
// consumes consume[k] bytes from the block's source and produces
// produce[k] bytes; after the script it returns `final` (io.EOF or an error).
type vModelFilter struct {
	consume []int
	produce [][]byte
	final   error
}

func (f *vModelFilter) id() uint64                       { return lzmaFilterID }
func (f *vModelFilter) UnmarshalBinary(data []byte) error { return nil }
func (f *vModelFilter) MarshalBinary() ([]byte, error)    { return []byte{lzmaFilterID, 1, 0}, nil }
func (f *vModelFilter) last() bool                        { return true }
func (f *vModelFilter) writeCloser(w io.WriteCloser, c *WriterConfig) (io.WriteCloser, error) {
	return w, nil
}
func (f *vModelFilter) reader(r io.Reader, c *ReaderConfig) (io.Reader, error) {
	return &vModelFR{f: f, r: r}, nil
}

type vModelFR struct {
	f    *vModelFilter
	r    io.Reader
	k    int
	rest []byte
}

func (m *vModelFR) Read(p []byte) (int, error) {
	if len(m.rest) == 0 {
		if m.k >= len(m.f.consume) {
			return 0, m.f.final
		}
		if c := m.f.consume[m.k]; c > 0 {
			buf := make([]byte, c)
			if _, err := io.ReadFull(m.r, buf); err != nil {
				if err == io.EOF {
					err = io.ErrUnexpectedEOF
				}
				return 0, err
			}
		}
		m.rest = m.f.produce[m.k]
		m.k++
	}
	n := copy(p, m.rest)
	m.rest = m.rest[n:]
	return n, nil
}

var vChecks = []byte{None, CRC32, CRC64, SHA256}

func vHashOf(ck byte, p []byte) []byte {
	nh, err := newHashFunc(ck)
	if err != nil {
		panic(err)
	}
	h := nh()
	h.Write(p)
	return h.Sum(nil)
}

// XR1: blockReader over a model filter. cut=false: the source holds the whole
// block and the conditions for a clean end are compared with the format;
// cut=true: the source ends or fails at an arbitrary position.
func vXR1(cut bool) {
	nck := 3
	if vThorough() {
		nck = 4
	}
	ck := vChecks[vConcretize(int(vNondetU8("check"))%nck)]
	// the filter consumes c1 bytes and produces u1 bytes in its first call, c2/u2 in the second
	c1 := vConcretize(int(vNondetU8("c1")) % 4)
	vAssume((int(ck)+c1)%vShards() == vShardIdx())
	nh, err := newHashFunc(ck)
	vAssert(err == nil, "hash constructor")
	hash := nh()
	s := hash.Size()
	vAssert(s == specCheckSize(ck), "check size = spec")
	c2 := vConcretize(int(vNondetU8("c2")) % 2)
	u1 := vConcretize(int(vNondetU8("u1")) % 3)
	u2 := vConcretize(int(vNondetU8("u2")) % 2)
	prod := vNondetBytes("out", u1+u2)
	filterFails := !cut && vNondetBool("filterFails")
	mf := &vModelFilter{consume: []int{c1, c2}, produce: [][]byte{prod[:u1], prod[u1:]}, final: io.EOF}
	if filterFails {
		mf.final = vErrSrc
	}
	consumed := c1 + c2
	pad := int(specPad(int64(consumed)))
	tail := vNondetBytes("tail", pad+s)
	var data []byte
	data = append(data, make([]byte, consumed)...)
	data = append(data, tail...)
	data = append(data, 0xAA) // one byte that belongs to whatever follows the block
	avail := len(data)
	src := &vSrc{data: data, end: avail}
	cs, us := int64(-1), int64(-1)
	if cut {
		avail = vConcretize(int(vNondetU8("avail")) % len(data))
		src.end = avail
		if vNondetBool("srcFails") {
			src.failErr = vErrSrc
		}
	} else {
		cs, us = vSize("csize"), vSize("usize")
	}
	hdr := &blockHeader{compressedSize: cs, uncompressedSize: us, filters: []filter{mf}}
	hlen := 12
	cfg := &ReaderConfig{}
	br, err := cfg.newBlockReader(src, hdr, hlen, hash)
	vAssert(err == nil, "block reader constructed")
	var out []byte
	p := make([]byte, 2)
	var rerr error
	for i := 0; i < 8 && rerr == nil; i++ {
		n, e := br.Read(p)
		vAssert(n >= 0 && n <= len(p), "never more bytes than requested")
		out = append(out, p[:n]...)
		rerr = e
	}
	vAssert(rerr != nil, "block ends within the script")
	vAssert(vIsPrefix(out, prod), "delivered bytes are a prefix of what the filter produced")
	// ---- the format's conditions for a clean end of block ----
	filterDone := avail >= consumed && !filterFails
	sizesOK := (us < 0 || us == int64(u1+u2)) && (cs < 0 || cs == int64(consumed))
	trailer := avail >= consumed+pad+s
	var padBits byte
	for i := 0; i < pad; i++ {
		padBits |= tail[i]
	}
	checkOK := bytes.Equal(tail[pad:], vHashOf(ck, prod))
	want := filterDone && sizesOK && trailer && padBits == 0 && checkOK
	vAssert((rerr == io.EOF) == want, "clean end of block iff sizes match, padding is zero and the stored check equals the hash of the delivered bytes")
	if rerr == io.EOF {
		vAssert(bytes.Equal(out, prod), "all produced bytes delivered before the clean end")
		vAssert(src.pos == consumed+pad+s, "exactly compressed data + padding + check consumed")
		rec := br.record()
		vAssert(rec.uncompressedSize == int64(len(prod)) && rec.unpaddedSize == int64(hlen+consumed+s), "record = measured sizes (header + compressed + check, uncompressed)")
		return
	}
	if cut && !trailer {
		if src.failErr == nil {
			vAssert(rerr != nil && rerr != io.EOF, "input ending inside the block is an error other than io.EOF")
		} else {
			vAssert(rerr == vErrSrc, "source error inside the block is returned")
		}
	}
	if filterFails && (us < 0 || int64(u1+u2) <= us) && (cs < 0 || int64(consumed) <= cs) {
		vAssert(rerr == vErrSrc, "filter error is returned")
	}
}

func VH_XR1_block() { vXR1(false) }
func VH_XR1_cut()   { vXR1(true) }

// ---- XR2: stream reader; real blocks with concrete raw LZMA2 content, the
// index and footer are arbitrary bytes --------------------------------------

// vRawBlock returns a complete block (header without sizes, one uncompressed
// LZMA2 chunk holding content, end chunk, padding, check).
func vRawBlock(ck byte, content []byte, withSizes bool) (blk []byte, rec record) {
	var comp []byte
	comp = append(comp, 1, byte((len(content)-1)>>8), byte(len(content)-1))
	comp = append(comp, content...)
	comp = append(comp, 0)
	h := blockHeader{compressedSize: -1, uncompressedSize: -1, filters: []filter{&lzmaFilter{dictCap: 4096}}}
	if withSizes {
		h.compressedSize = int64(len(comp))
		h.uncompressedSize = int64(len(content))
	}
	hd, err := h.MarshalBinary()
	if err != nil {
		panic(err)
	}
	blk = append(blk, hd...)
	blk = append(blk, comp...)
	blk = append(blk, make([]byte, specPad(int64(len(comp))))...)
	sum := vHashOf(ck, content)
	blk = append(blk, sum...)
	return blk, record{unpaddedSize: int64(len(hd) + len(comp) + len(sum)), uncompressedSize: int64(len(content))}
}

func VH_XR2_tail() {
	vUnwind(12)
	ck := vChecks[vConcretize(int(vNondetU8("check"))%3)]
	nb := vConcretize(int(vNondetU8("blocks")) % 3)
	vAssume((int(ck)+nb)%vShards() == vShardIdx())
	hd, err := (&header{flags: ck}).MarshalBinary()
	vAssert(err == nil, "stream header")
	var data []byte
	data = append(data, hd...)
	var recs []record
	var content []byte
	for i := 0; i < nb; i++ {
		c := []byte{byte('a' + i), 'x'}
		blk, rec := vRawBlock(ck, c[:1+i], i == 1)
		data = append(data, blk...)
		recs = append(recs, rec)
		content = append(content, c[:1+i]...)
	}
	// The tail is laid out by this (independent) writer from arbitrary field
	// values: record count, one (unpadded, uncompressed) pair per block, footer
	// flags and backward size are symbolic; both CRC32 fields are sealed over
	// whatever the fields are, so only the cross-checks can reject the stream.
	// (Malformed varints, padding, magic and CRC fields: lemmas X1, X3.)
	idx := []byte{0}
	cnt := vNondetU8("count")
	vAssume(cnt < 0x80)
	idx = append(idx, cnt)
	match := int(cnt) == nb
	for i := 0; i < nb; i++ {
		u, c := vNondetU8("unpadded"), vNondetU8("uncompressed")
		vAssume(u < 0x80 && c < 0x80)
		idx = append(idx, u, c)
		match = match && int64(u) == recs[i].unpaddedSize && int64(c) == recs[i].uncompressedSize
	}
	for len(idx)%4 != 0 {
		idx = append(idx, 0)
	}
	crc := specCRC32(idx)
	idx = append(idx, byte(crc), byte(crc>>8), byte(crc>>16), byte(crc>>24))
	bsize := vNondetU32("backwardSize")
	fflags := vNondetU8("footerFlags")
	vAssume(specCheckSize(fflags) >= 0)
	ft := []byte{0, 0, 0, 0, byte(bsize), byte(bsize >> 8), byte(bsize >> 16), byte(bsize >> 24), 0, fflags, 'Y', 'Z'}
	crc = specCRC32(ft[4:10])
	ft[0], ft[1], ft[2], ft[3] = byte(crc), byte(crc>>8), byte(crc>>16), byte(crc>>24)
	start := len(data)
	data = append(data, idx...)
	data = append(data, ft...)
	tailLen := len(idx) + len(ft)
	avail := len(data)
	if vNondetBool("cut") {
		avail = start + vConcretize(int(vNondetU8("avail"))%tailLen)
	}
	src := &vSrc{data: data, end: avail}
	cfg := ReaderConfig{}
	sr, err := cfg.newStreamReader(src)
	vAssert(err == nil, "valid stream header accepted")
	out, rerr := vReadAll(sr, 3)
	vAssert(rerr != nil, "stream ends")
	vAssert(vIsPrefix(out, content), "delivered bytes are a prefix of the block contents")
	want := avail == len(data) && match && fflags == ck && (int64(bsize)+1)*4 == int64(len(idx))
	vAssert((rerr == io.EOF) == want, "clean end of stream iff record count, every record, footer flags and backward size agree with what was decoded")
	if rerr == io.EOF {
		vAssert(bytes.Equal(out, content), "complete content delivered")
		vAssert(src.pos == len(data), "consumed exactly index and footer")
	}
	if avail < len(data) {
		vAssert(rerr != io.EOF, "input ending inside index or footer is an error other than io.EOF")
	}
}

// XR2b: block header with declared sizes that disagree with the block, and
// blocks whose stored check is arbitrary: real LZMA2 filter, concrete content.
func VH_XR2_blockfields() {
	vUnwind(12)
	ck := vChecks[1+vConcretize(int(vNondetU8("check"))%2)]
	content := []byte("hey")
	comp := []byte{1, 0, 2, 'h', 'e', 'y', 0}
	cs, us := vSize("csize"), vSize("usize")
	h := blockHeader{compressedSize: cs, uncompressedSize: us, filters: []filter{&lzmaFilter{dictCap: 4096}}}
	hd, err := h.MarshalBinary()
	vAssert(err == nil, "block header marshals")
	sh, _ := (&header{flags: ck}).MarshalBinary()
	var data []byte
	data = append(data, sh...)
	data = append(data, hd...)
	data = append(data, comp...)
	pad := vNondetBytes("pad", 1)
	data = append(data, pad...)
	sum := vNondetBytes("sum", specCheckSize(ck))
	data = append(data, sum...)
	rec := record{unpaddedSize: int64(len(hd) + len(comp) + len(sum)), uncompressedSize: 3}
	var idx bytes.Buffer
	n, err := writeIndex(&idx, []record{rec})
	vAssert(err == nil, "index")
	data = append(data, idx.Bytes()...)
	ft, _ := (&footer{indexSize: n, flags: ck}).MarshalBinary()
	data = append(data, ft...)
	r, err := NewReader(&vSrc{data: data, end: len(data)})
	vAssert(err == nil, "opens")
	out, rerr := vReadAll(r, 4)
	want := (cs < 0 || cs == int64(len(comp))) && (us < 0 || us == 3) && pad[0] == 0 && bytes.Equal(sum, vHashOf(ck, content))
	vAssert((rerr == io.EOF) == want, "clean end iff declared sizes equal the measured ones, padding zero, check matches")
	vAssert(vIsPrefix(out, content), "delivered bytes are a prefix of the content")
}

// ---- XW1 (C09, C02, C01): blockWriter.Write/Close over a model filter ---------

// vModelFW is an arbitrary compression filter on the write side: each Write
// accepts `accept` bytes (at most len(p)), forwards `emit` arbitrary bytes to
// the block's sink and may fail.
type vModelFW struct {
	w      io.Writer
	accept int
	emit   []byte
	fail   error
	tail   []byte // written on Close
	closed bool
}

func (m *vModelFW) Write(p []byte) (int, error) {
	if len(m.emit) > 0 {
		if _, err := m.w.Write(m.emit); err != nil {
			return 0, err
		}
	}
	if m.fail != nil { // a failing write may have accepted part of the data
		n := m.accept
		if n > len(p) {
			n = len(p)
		}
		return n, m.fail
	}
	return len(p), nil // io.Writer contract: a short write must come with an error
}

func (m *vModelFW) Close() error {
	m.closed = true
	if len(m.tail) > 0 {
		if _, err := m.w.Write(m.tail); err != nil {
			return err
		}
	}
	return nil
}

var vTheFW *vModelFW

func vModelWriteCloser(f lzmaFilter, w io.WriteCloser, c *WriterConfig) (io.WriteCloser, error) {
	vTheFW.w = w
	return vTheFW, nil
}

func VH_XW1_block() {
	vSubst("(lzmaFilter).writeCloser", vModelWriteCloser)
	ck := vChecks[vConcretize(int(vNondetU8("check"))%3)]
	nh, err := newHashFunc(ck)
	vAssert(err == nil, "hash constructor")
	blockSize := vNondetI64("blockSize")
	vAssume(blockSize >= 1)
	cfg := &WriterConfig{DictCap: 4096, BufSize: 4096, BlockSize: blockSize}
	vTheFW = &vModelFW{emit: vNondetBytes("emit", vConcretize(int(vNondetU8("emitLen"))%3)), tail: vNondetBytes("tail", vConcretize(int(vNondetU8("tailLen"))%3))}
	sink := &vSink{failFrom: -1}
	bw, err := cfg.newBlockWriter(sink, nh())
	vAssert(err == nil, "block writer constructed")
	vAssert(bw.writeHeader(sink) == nil && bw.headerLen > 0 && bw.headerLen%4 == 0, "block header written")
	hdrLen := len(sink.buf)
	// the block already holds n0 bytes
	n0 := vNondetI64("n0")
	vAssume(n0 >= 0 && n0 <= blockSize)
	bw.n = n0
	plen := vConcretize(int(vNondetU8("plen")) % 5)
	p := vNondetBytes("p", plen)
	vTheFW.accept = vConcretize(int(vNondetU8("accept")) % 5)
	if vNondetBool("filterFails") {
		vTheFW.fail = vErrSink
	}
	n, werr := bw.Write(p)
	room := blockSize - n0
	offered := int64(plen)
	if offered > room {
		offered = room
	}
	vAssert(int64(n) <= offered && n >= 0, "never passes more than the room left in the block to the filter")
	wantN := int(offered)
	if vTheFW.fail != nil && vTheFW.accept < wantN {
		wantN = vTheFW.accept
	}
	vAssert(n == wantN && bw.n == n0+int64(n), "count = what the filter accepted; block size accounting follows it")
	if vTheFW.fail != nil {
		vAssert(werr == vErrSink, "a failing filter/sink error is returned, never masked by the block-full signal")
	} else if int64(plen) > room {
		vAssert(werr != nil && werr != vErrSink, "a call that does not fit reports that the block is full")
	} else {
		vAssert(werr == nil, "a call that fits succeeds")
	}
	if werr == vErrSink {
		return
	}
	// Close: filter closed, padding to a multiple of four, then the check over all accepted bytes
	comp := len(sink.buf) - hdrLen
	vAssert(bw.Close() == nil && vTheFW.closed, "Close closes the filter")
	comp += len(vTheFW.tail)
	pad := int(specPad(int64(comp)))
	s := specCheckSize(ck)
	vAssert(len(sink.buf) == hdrLen+comp+pad+s, "block = header, compressed data, padding to a multiple of four, check")
	var padBits byte
	for i := 0; i < pad; i++ {
		padBits |= sink.buf[hdrLen+comp+i]
	}
	vAssert(padBits == 0, "padding bytes are zero")
	if n0 == 0 {
		vAssert(bytes.Equal(sink.buf[hdrLen+comp+pad:], vHashOf(ck, p[:n])), "check value = hash of exactly the bytes accepted into the block")
	}
	rec := bw.record()
	vAssert(rec.uncompressedSize == n0+int64(n) && rec.unpaddedSize == int64(hdrLen+comp+s), "index record = measured sizes")
	vAssert(bw.Close() != nil, "second Close fails")
	_, err = bw.Write(p)
	vAssert(err != nil, "Write after Close fails")
}
