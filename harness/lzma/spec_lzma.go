package lzma

// Reference LZMA / LZMA2 codec, transcribed from the LZMA SDK's
// lzma-specification.txt (decoder) and from the .xz format document
// (LZMA2 chunk layer, following liblzma's lzma2_decoder.c control logic).
// It shares nothing with the library: own probability tables, own range
// coder, own state tables, own dictionary (the output slice itself).
// Part of the trusted base; used (a) as the independent decoder that judges
// what the library's writers emit, (b) as the independent encoder that
// produces valid streams the library's own encoder never emits.

const (
	sKTop       = 1 << 24
	sKBitModel  = 1 << 11
	sKMoveBits  = 5
	sKProbInit  = sKBitModel / 2
	sKNumStates = 12
)

// ---- range decoder -----------------------------------------------------------

type VSpecRD struct {
	in        []byte
	pos       int
	rng, code uint32
	corrupted bool
	short     bool // input exhausted
}

func (rc *VSpecRD) readByte() uint32 {
	if rc.pos >= len(rc.in) {
		rc.short = true
		return 0
	}
	b := rc.in[rc.pos]
	rc.pos++
	return uint32(b)
}

func (rc *VSpecRD) init() bool {
	rc.corrupted = false
	rc.rng = 0xFFFFFFFF
	rc.code = 0
	b := rc.readByte()
	for i := 0; i < 4; i++ {
		rc.code = rc.code<<8 | rc.readByte()
	}
	if b != 0 || rc.code == rc.rng {
		rc.corrupted = true
	}
	return b == 0 && !rc.short
}

func (rc *VSpecRD) normalize() {
	if rc.rng < sKTop {
		rc.rng <<= 8
		rc.code = rc.code<<8 | rc.readByte()
	}
}

// Probability cells hold the value XOR sKProbInit, so that a zeroed table
// is an initialised table (tables of up to 0x300<<12 cells need no fill loop).
func (rc *VSpecRD) bit(prob *uint16) uint32 {
	v := uint32(*prob) ^ sKProbInit
	bound := (rc.rng >> 11) * v
	var sym uint32
	if rc.code < bound {
		v += (sKBitModel - v) >> sKMoveBits
		rc.rng = bound
	} else {
		v -= v >> sKMoveBits
		rc.code -= bound
		rc.rng -= bound
		sym = 1
	}
	*prob = uint16(v) ^ sKProbInit
	rc.normalize()
	return sym
}

func (rc *VSpecRD) direct(n int) uint32 {
	var res uint32
	for ; n > 0; n-- {
		rc.rng >>= 1
		rc.code -= rc.rng
		t := 0 - (rc.code >> 31)
		rc.code += rc.rng & t
		if rc.code == rc.rng {
			rc.corrupted = true
		}
		rc.normalize()
		res = res<<1 + t + 1
	}
	return res
}

func sTree(rc *VSpecRD, probs []uint16, nbits int) uint32 {
	m := uint32(1)
	for i := 0; i < nbits; i++ {
		m = m<<1 + rc.bit(&probs[m])
	}
	return m - uint32(1)<<uint(nbits)
}

func sRevTree(rc *VSpecRD, probs []uint16, nbits int) uint32 {
	m := uint32(1)
	var sym uint32
	for i := 0; i < nbits; i++ {
		b := rc.bit(&probs[m])
		m = m<<1 + b
		sym |= b << uint(i)
	}
	return sym
}

// ---- model ---------------------------------------------------------------------

type sLenModel struct {
	choice, choice2 uint16
	low, mid        [16][8]uint16
	high            [256]uint16
}

func sInitProbs(p []uint16) {
	for i := range p {
		p[i] = 0 // = sKProbInit under the XOR representation
	}
}

func (l *sLenModel) init() {
	l.choice, l.choice2 = 0, 0
	for i := range l.low {
		sInitProbs(l.low[i][:])
		sInitProbs(l.mid[i][:])
	}
	sInitProbs(l.high[:])
}

func (l *sLenModel) decode(rc *VSpecRD, posState uint32) uint32 {
	if rc.bit(&l.choice) == 0 {
		return sTree(rc, l.low[posState][:], 3)
	}
	if rc.bit(&l.choice2) == 0 {
		return 8 + sTree(rc, l.mid[posState][:], 3)
	}
	return 16 + sTree(rc, l.high[:], 8)
}

type VSpecModel struct {
	lc, lp, pb  uint
	lit         []uint16
	posSlot     [4][64]uint16
	align       [16]uint16
	posDecoders [1 + 128 - 14]uint16 // kNumFullDistances - kEndPosModelIndex
	isMatch     [sKNumStates << 4]uint16
	isRep       [sKNumStates]uint16
	isRepG0     [sKNumStates]uint16
	isRepG1     [sKNumStates]uint16
	isRepG2     [sKNumStates]uint16
	isRep0Long  [sKNumStates << 4]uint16
	lenDec      sLenModel
	repLenDec   sLenModel
	state       uint32
	rep         [4]uint32
}

func (m *VSpecModel) reset(lc, lp, pb uint) {
	m.lc, m.lp, m.pb = lc, lp, pb
	m.lit = make([]uint16, 0x300<<(lc+lp)) // zeroed = initialised
	for i := range m.posSlot {
		sInitProbs(m.posSlot[i][:])
	}
	sInitProbs(m.align[:])
	sInitProbs(m.posDecoders[:])
	sInitProbs(m.isMatch[:])
	sInitProbs(m.isRep[:])
	sInitProbs(m.isRepG0[:])
	sInitProbs(m.isRepG1[:])
	sInitProbs(m.isRepG2[:])
	sInitProbs(m.isRep0Long[:])
	m.lenDec.init()
	m.repLenDec.init()
	m.state = 0
	m.rep = [4]uint32{}
}

func sUpdateLit(s uint32) uint32 {
	if s < 4 {
		return 0
	}
	if s < 10 {
		return s - 3
	}
	return s - 6
}
func sUpdateMatch(s uint32) uint32 {
	if s < 7 {
		return 7
	}
	return 10
}
func sUpdateRep(s uint32) uint32 {
	if s < 7 {
		return 8
	}
	return 11
}
func sUpdateShortRep(s uint32) uint32 {
	if s < 7 {
		return 9
	}
	return 11
}

// VSpecLZ decodes LZMA symbols into out (the dictionary is the output so
// far, from dictStart on).
type VSpecLZ struct {
	m         VSpecModel
	rc        VSpecRD
	out       []byte
	dictStart int    // index in out of the first byte a match may reference
	dictSize  uint32 // declared dictionary size
}

func (d *VSpecLZ) histLen() int { return len(d.out) - d.dictStart }

func (d *VSpecLZ) decodeLiteral() {
	m := &d.m
	var prev uint32
	if d.histLen() > 0 {
		prev = uint32(d.out[len(d.out)-1])
	}
	pos := uint32(d.histLen())
	litState := (pos&(1<<m.lp-1))<<m.lc + prev>>(8-m.lc)
	probs := m.lit[0x300*litState : 0x300*litState+0x300]
	symbol := uint32(1)
	if m.state >= 7 {
		matchByte := uint32(d.out[len(d.out)-int(m.rep[0])-1])
		for symbol < 0x100 {
			matchBit := (matchByte >> 7) & 1
			matchByte <<= 1
			b := d.rc.bit(&probs[(1+matchBit)<<8+symbol])
			symbol = symbol<<1 | b
			if matchBit != b {
				break
			}
		}
	}
	for symbol < 0x100 {
		symbol = symbol<<1 | d.rc.bit(&probs[symbol])
	}
	d.out = append(d.out, byte(symbol))
}

func (d *VSpecLZ) decodeDistance(length uint32) uint32 {
	m := &d.m
	lenState := length
	if lenState > 3 {
		lenState = 3
	}
	posSlot := sTree(&d.rc, m.posSlot[lenState][:], 6)
	if posSlot < 4 {
		return posSlot
	}
	nDirect := int(posSlot>>1) - 1
	dist := (2 | posSlot&1) << uint(nDirect)
	if posSlot < 14 {
		dist += sRevTree(&d.rc, m.posDecoders[dist-posSlot:], nDirect)
	} else {
		dist += d.rc.direct(nDirect-4) << 4
		dist += sRevTree(&d.rc, m.align[:], 4)
	}
	return dist
}

const (
	VSpecErr        = -1
	VSpecNeedMore   = 0 // produced `limit` bytes, no end marker seen
	VSpecEndMarker  = 1
	VSpecEndNoMark  = 2 // size reached and range coder finished (classic LZMA)
)

// run decodes until `limit` more bytes have been produced (limit < 0:
// until the end marker). markerAllowed: an end marker is legal.
// Returns one of the VSpec* codes.
func (d *VSpecLZ) run(limit int64, markerAllowed, expectMarker bool) int {
	m := &d.m
	produced := int64(0)
	for {
		if d.rc.corrupted || d.rc.short {
			return VSpecErr
		}
		if limit >= 0 && produced == limit && !expectMarker {
			return VSpecNeedMore
		}
		posState := uint32(d.histLen()) & (1<<m.pb - 1)
		if d.rc.bit(&m.isMatch[m.state<<4+posState]) == 0 {
			if limit >= 0 && produced >= limit {
				return VSpecErr
			}
			d.decodeLiteral()
			m.state = sUpdateLit(m.state)
			produced++
			continue
		}
		var length uint32
		if d.rc.bit(&m.isRep[m.state]) != 0 {
			if d.histLen() == 0 {
				return VSpecErr
			}
			if d.rc.bit(&m.isRepG0[m.state]) == 0 {
				if d.rc.bit(&m.isRep0Long[m.state<<4+posState]) == 0 {
					m.state = sUpdateShortRep(m.state)
					if int64(m.rep[0]) >= int64(d.histLen()) || (limit >= 0 && produced >= limit) {
						return VSpecErr
					}
					d.out = append(d.out, d.out[len(d.out)-int(m.rep[0])-1])
					produced++
					continue
				}
			} else {
				var dist uint32
				if d.rc.bit(&m.isRepG1[m.state]) == 0 {
					dist = m.rep[1]
				} else {
					if d.rc.bit(&m.isRepG2[m.state]) == 0 {
						dist = m.rep[2]
					} else {
						dist = m.rep[3]
						m.rep[3] = m.rep[2]
					}
					m.rep[2] = m.rep[1]
				}
				m.rep[1] = m.rep[0]
				m.rep[0] = dist
			}
			length = m.repLenDec.decode(&d.rc, posState)
			m.state = sUpdateRep(m.state)
		} else {
			m.rep[3], m.rep[2], m.rep[1] = m.rep[2], m.rep[1], m.rep[0]
			length = m.lenDec.decode(&d.rc, posState)
			m.state = sUpdateMatch(m.state)
			m.rep[0] = d.decodeDistance(length)
			if m.rep[0] == 0xFFFFFFFF {
				if !markerAllowed || d.rc.corrupted || d.rc.short || d.rc.code != 0 {
					return VSpecErr
				}
				return VSpecEndMarker
			}
		}
		if d.rc.corrupted || d.rc.short {
			return VSpecErr
		}
		if m.rep[0] >= d.dictSize || int64(m.rep[0]) >= int64(d.histLen()) {
			return VSpecErr
		}
		n := int64(length) + 2
		if limit >= 0 && produced+n > limit {
			return VSpecErr // match runs past the declared size
		}
		for i := int64(0); i < n; i++ {
			d.out = append(d.out, d.out[len(d.out)-int(m.rep[0])-1])
		}
		produced += n
	}
}

// VSpecLZMADecode decodes a classic .lzma file. ok=false: not a valid stream.
func VSpecLZMADecode(z []byte) (out []byte, ok bool) {
	if len(z) < 13 {
		return nil, false
	}
	p := z[0]
	if p >= 225 {
		return nil, false
	}
	lc, lp, pb := uint(p%9), uint((p/9)%5), uint(p/45)
	dict := uint32(z[1]) | uint32(z[2])<<8 | uint32(z[3])<<16 | uint32(z[4])<<24
	if dict < 4096 {
		dict = 4096
	}
	var size uint64
	for i := 0; i < 8; i++ {
		size |= uint64(z[5+i]) << (8 * uint(i))
	}
	d := &VSpecLZ{dictSize: dict}
	d.m.reset(lc, lp, pb)
	d.rc.in = z[13:]
	if !d.rc.init() || d.rc.corrupted {
		return nil, false
	}
	if size == 1<<64-1 {
		if d.run(-1, true, false) != VSpecEndMarker {
			return nil, false
		}
		return d.out, true
	}
	if size >= 1<<62 {
		return nil, false
	}
	res := d.run(int64(size), true, false)
	if res == VSpecErr || int64(len(d.out)) != int64(size) {
		return nil, false
	}
	if res == VSpecEndMarker {
		return d.out, true // marker exactly at the declared size
	}
	// size reached: finished without marker, or an end marker must follow
	if d.rc.code == 0 {
		return d.out, true
	}
	if d.run(0, true, true) != VSpecEndMarker {
		return nil, false
	}
	return d.out, true
}

// VSpecChunk describes one parsed LZMA2 chunk (for size-limit assertions).
type VSpecChunk struct {
	Kind         int // spec kind 1..6 (see specChunkKind)
	Uncompressed int
	Compressed   int
}

// VSpecLZMA2Decode decodes a raw LZMA2 stream (as stored in an xz block)
// strictly: legal chunk sequence, exact sizes, range coder finished at the
// end of every compressed chunk, distances within the declared dictionary.
// Returns the content, the number of input bytes used (including the end
// chunk) and the chunk list.
func VSpecLZMA2Decode(z []byte, dictSize uint32) (out []byte, used int, chunks []VSpecChunk, ok bool) {
	return VSpecLZMA2DecodeOpen(z, dictSize, false)
}

// VSpecLZMA2DecodeOpen: with open=true the input may also stop on a chunk
// boundary before the end chunk (what a flushed writer has emitted so far).
func VSpecLZMA2DecodeOpen(z []byte, dictSize uint32, open bool) (out []byte, used int, chunks []VSpecChunk, ok bool) {
	d := &VSpecLZ{dictSize: dictSize}
	needDict, needProps := true, true
	haveModel := false
	pos := 0
	for {
		if pos >= len(z) {
			if open && pos == len(z) {
				return d.out, pos, chunks, true
			}
			return nil, 0, nil, false
		}
		ctrl := z[pos]
		kind := specChunkKind(ctrl)
		if kind < 0 {
			return nil, 0, nil, false
		}
		nd, np, legal, end := specStep(needDict, needProps, kind)
		if !legal {
			return nil, 0, nil, false
		}
		if end {
			return d.out, pos + 1, chunks, true
		}
		needDict, needProps = nd, np
		if kind == 1 || kind == 6 {
			d.dictStart = len(d.out)
		}
		if kind <= 2 {
			if pos+3 > len(z) {
				return nil, 0, nil, false
			}
			u := int(z[pos+1])<<8 | int(z[pos+2]) + 1
			pos += 3
			if pos+u > len(z) {
				return nil, 0, nil, false
			}
			d.out = append(d.out, z[pos:pos+u]...)
			pos += u
			chunks = append(chunks, VSpecChunk{kind, u, u})
			continue
		}
		hl := 5
		if kind >= 5 {
			hl = 6
		}
		if pos+hl > len(z) {
			return nil, 0, nil, false
		}
		u := (int(ctrl&0x1f)<<16 | int(z[pos+1])<<8 | int(z[pos+2])) + 1
		c := (int(z[pos+3])<<8 | int(z[pos+4])) + 1
		if kind >= 5 {
			p := z[pos+5]
			if p >= 225 {
				return nil, 0, nil, false
			}
			lc, lp, pb := uint(p%9), uint((p/9)%5), uint(p/45)
			if lc+lp > 4 {
				return nil, 0, nil, false
			}
			d.m.reset(lc, lp, pb)
			haveModel = true
		} else if kind == 4 {
			if !haveModel {
				return nil, 0, nil, false
			}
			d.m.reset(d.m.lc, d.m.lp, d.m.pb)
		}
		pos += hl
		if pos+c > len(z) || c < 5 {
			return nil, 0, nil, false
		}
		d.rc = VSpecRD{in: z[pos : pos+c]}
		if !d.rc.init() || d.rc.corrupted {
			return nil, 0, nil, false
		}
		if d.run(int64(u), false, false) != VSpecNeedMore {
			return nil, 0, nil, false
		}
		if d.rc.code != 0 || d.rc.pos != c || d.rc.short || d.rc.corrupted {
			return nil, 0, nil, false
		}
		pos += c
		chunks = append(chunks, VSpecChunk{kind, u, c})
	}
}

// ---- reference encoder -----------------------------------------------------

type VSpecRE struct {
	low       uint64
	rng       uint32
	cache     byte
	cacheSize int64
	out       []byte
}

func (e *VSpecRE) init() {
	e.low, e.rng, e.cache, e.cacheSize, e.out = 0, 0xFFFFFFFF, 0, 1, nil
}

func (e *VSpecRE) shiftLow() {
	if uint32(e.low) < 0xFF000000 || e.low>>32 != 0 {
		carry := byte(e.low >> 32)
		temp := e.cache
		for {
			e.out = append(e.out, temp+carry)
			temp = 0xFF
			e.cacheSize--
			if e.cacheSize == 0 {
				break
			}
		}
		e.cache = byte(uint32(e.low) >> 24)
	}
	e.cacheSize++
	e.low = uint64(uint32(e.low) << 8)
}

func (e *VSpecRE) bit(prob *uint16, b uint32) {
	v := uint32(*prob) ^ sKProbInit
	bound := (e.rng >> 11) * v
	if b == 0 {
		e.rng = bound
		v += (sKBitModel - v) >> sKMoveBits
	} else {
		e.low += uint64(bound)
		e.rng -= bound
		v -= v >> sKMoveBits
	}
	*prob = uint16(v) ^ sKProbInit
	for e.rng < sKTop {
		e.rng <<= 8
		e.shiftLow()
	}
}

func (e *VSpecRE) direct(v uint32, n int) {
	for i := n - 1; i >= 0; i-- {
		e.rng >>= 1
		if (v>>uint(i))&1 == 1 {
			e.low += uint64(e.rng)
		}
		for e.rng < sKTop {
			e.rng <<= 8
			e.shiftLow()
		}
	}
}

func (e *VSpecRE) flush() {
	for i := 0; i < 5; i++ {
		e.shiftLow()
	}
}

func sTreeEnc(e *VSpecRE, probs []uint16, nbits int, v uint32) {
	m := uint32(1)
	for i := nbits - 1; i >= 0; i-- {
		b := (v >> uint(i)) & 1
		e.bit(&probs[m], b)
		m = m<<1 | b
	}
}

func sRevTreeEnc(e *VSpecRE, probs []uint16, nbits int, v uint32) {
	m := uint32(1)
	for i := 0; i < nbits; i++ {
		b := v & 1
		v >>= 1
		e.bit(&probs[m], b)
		m = m<<1 | b
	}
}

func (l *sLenModel) encode(e *VSpecRE, posState, n uint32) {
	if n < 8 {
		e.bit(&l.choice, 0)
		sTreeEnc(e, l.low[posState][:], 3, n)
		return
	}
	e.bit(&l.choice, 1)
	if n < 16 {
		e.bit(&l.choice2, 0)
		sTreeEnc(e, l.mid[posState][:], 3, n-8)
		return
	}
	e.bit(&l.choice2, 1)
	sTreeEnc(e, l.high[:], 8, n-16)
}

// VSpecOp is one LZMA operation for the reference encoder.
// Kind: 0 literal (Byte), 1 match (Dist = distance-1, Len), 2 short rep,
// 3 long rep (Rep = 0..3, Len), 4 end marker.
type VSpecOp struct {
	Kind int
	Byte byte
	Dist uint32
	Len  int
	Rep  int
}

// VSpecEnc encodes operation sequences; hist is the output so far (needed
// for literal contexts), histStart the index of the first referable byte.
type VSpecEnc struct {
	m         VSpecModel
	e         VSpecRE
	hist      []byte
	histStart int
}

func (x *VSpecEnc) pos() uint32 { return uint32(len(x.hist) - x.histStart) }

func (x *VSpecEnc) encDist(dist uint32, lenCode uint32) {
	m := &x.m
	lenState := lenCode
	if lenState > 3 {
		lenState = 3
	}
	var posSlot uint32
	if dist < 4 {
		posSlot = dist
	} else {
		n := uint32(31)
		for dist>>n == 0 {
			n--
		}
		posSlot = n<<1 | (dist>>(n-1))&1
	}
	sTreeEnc(&x.e, m.posSlot[lenState][:], 6, posSlot)
	if posSlot < 4 {
		return
	}
	nDirect := int(posSlot>>1) - 1
	base := (2 | posSlot&1) << uint(nDirect)
	rest := dist - base
	if posSlot < 14 {
		sRevTreeEnc(&x.e, m.posDecoders[base-posSlot:], nDirect, rest)
	} else {
		x.e.direct(rest>>4, nDirect-4)
		sRevTreeEnc(&x.e, m.align[:], 4, rest&15)
	}
}

// Put encodes one operation and applies it to hist. It returns false if the
// operation is not legal at this point (distance outside the history etc.).
func (x *VSpecEnc) Put(op VSpecOp) bool {
	m := &x.m
	posState := x.pos() & (1<<m.pb - 1)
	hl := len(x.hist) - x.histStart
	switch op.Kind {
	case 0:
		x.e.bit(&m.isMatch[m.state<<4+posState], 0)
		var prev uint32
		if hl > 0 {
			prev = uint32(x.hist[len(x.hist)-1])
		}
		litState := (x.pos()&(1<<m.lp-1))<<m.lc + prev>>(8-m.lc)
		probs := m.lit[0x300*litState : 0x300*litState+0x300]
		symbol := uint32(1)
		c := uint32(op.Byte)
		i := 7
		if m.state >= 7 {
			matchByte := uint32(x.hist[len(x.hist)-int(m.rep[0])-1])
			for ; i >= 0; i-- {
				matchBit := (matchByte >> uint(i)) & 1
				b := (c >> uint(i)) & 1
				x.e.bit(&probs[(1+matchBit)<<8+symbol], b)
				symbol = symbol<<1 | b
				if matchBit != b {
					i--
					break
				}
			}
		}
		for ; i >= 0; i-- {
			b := (c >> uint(i)) & 1
			x.e.bit(&probs[symbol], b)
			symbol = symbol<<1 | b
		}
		m.state = sUpdateLit(m.state)
		x.hist = append(x.hist, op.Byte)
		return true
	case 1, 4:
		dist := op.Dist
		n := op.Len
		if op.Kind == 4 {
			dist, n = 0xFFFFFFFF, 2
		} else if int64(dist) >= int64(hl) || n < 2 || n > 273 {
			return false
		}
		x.e.bit(&m.isMatch[m.state<<4+posState], 1)
		x.e.bit(&m.isRep[m.state], 0)
		m.lenDec.encode(&x.e, posState, uint32(n-2))
		m.state = sUpdateMatch(m.state)
		x.encDist(dist, uint32(n-2))
		m.rep[3], m.rep[2], m.rep[1], m.rep[0] = m.rep[2], m.rep[1], m.rep[0], dist
		if op.Kind == 4 {
			return true
		}
		for i := 0; i < n; i++ {
			x.hist = append(x.hist, x.hist[len(x.hist)-int(dist)-1])
		}
		return true
	case 2:
		if hl == 0 || int64(m.rep[0]) >= int64(hl) {
			return false
		}
		x.e.bit(&m.isMatch[m.state<<4+posState], 1)
		x.e.bit(&m.isRep[m.state], 1)
		x.e.bit(&m.isRepG0[m.state], 0)
		x.e.bit(&m.isRep0Long[m.state<<4+posState], 0)
		m.state = sUpdateShortRep(m.state)
		x.hist = append(x.hist, x.hist[len(x.hist)-int(m.rep[0])-1])
		return true
	case 3:
		dist := m.rep[op.Rep]
		n := op.Len
		if hl == 0 || int64(dist) >= int64(hl) || n < 2 || n > 273 {
			return false
		}
		x.e.bit(&m.isMatch[m.state<<4+posState], 1)
		x.e.bit(&m.isRep[m.state], 1)
		switch op.Rep {
		case 0:
			x.e.bit(&m.isRepG0[m.state], 0)
			x.e.bit(&m.isRep0Long[m.state<<4+posState], 1)
		case 1:
			x.e.bit(&m.isRepG0[m.state], 1)
			x.e.bit(&m.isRepG1[m.state], 0)
			m.rep[1] = m.rep[0]
		case 2:
			x.e.bit(&m.isRepG0[m.state], 1)
			x.e.bit(&m.isRepG1[m.state], 1)
			x.e.bit(&m.isRepG2[m.state], 0)
			m.rep[2] = m.rep[1]
			m.rep[1] = m.rep[0]
		case 3:
			x.e.bit(&m.isRepG0[m.state], 1)
			x.e.bit(&m.isRepG1[m.state], 1)
			x.e.bit(&m.isRepG2[m.state], 1)
			m.rep[3] = m.rep[2]
			m.rep[2] = m.rep[1]
			m.rep[1] = m.rep[0]
		}
		m.rep[0] = dist
		m.repLenDec.encode(&x.e, posState, uint32(n-2))
		m.state = sUpdateRep(m.state)
		for i := 0; i < n; i++ {
			x.hist = append(x.hist, x.hist[len(x.hist)-int(dist)-1])
		}
		return true
	}
	return false
}

// VSpecLZMAEncode produces a classic .lzma file from an operation list.
// size < 0: unknown size (end marker is appended); marker: append the end
// marker even though the size is known.
func VSpecLZMAEncode(lc, lp, pb uint, dict uint32, ops []VSpecOp, sizeKnown, marker bool) (z, content []byte, ok bool) {
	x := &VSpecEnc{}
	x.m.reset(lc, lp, pb)
	x.e.init()
	for _, op := range ops {
		if !x.Put(op) {
			return nil, nil, false
		}
	}
	if marker || !sizeKnown {
		x.Put(VSpecOp{Kind: 4})
	}
	x.e.flush()
	z = append(z, byte((pb*5+lp)*9+lc), byte(dict), byte(dict>>8), byte(dict>>16), byte(dict>>24))
	size := uint64(len(x.hist))
	if !sizeKnown {
		size = 1<<64 - 1
	}
	for i := 0; i < 8; i++ {
		z = append(z, byte(size>>(8*uint(i))))
	}
	z = append(z, x.e.out...)
	return z, x.hist, true
}

// VSpecLZMA2Chunk describes one chunk for the reference LZMA2 writer.
type VSpecLZMA2Chunk struct {
	Kind       int // 1,2 raw (Raw bytes); 3..6 LZMA (Ops)
	Raw        []byte
	Ops        []VSpecOp
	LC, LP, PB uint // for kinds 5, 6
}

// VSpecLZMA2Encode writes a raw LZMA2 stream from a chunk list (the caller
// is responsible for choosing a legal sequence; the result is what the
// format defines for that sequence).
func VSpecLZMA2Encode(chunks []VSpecLZMA2Chunk) (z, content []byte, ok bool) {
	x := &VSpecEnc{}
	have := false
	for _, c := range chunks {
		if c.Kind == 1 || c.Kind == 6 {
			x.histStart = len(x.hist)
		}
		if c.Kind <= 2 {
			n := len(c.Raw)
			if n < 1 || n > 1<<16 {
				return nil, nil, false
			}
			z = append(z, byte(c.Kind), byte((n-1)>>8), byte(n-1))
			z = append(z, c.Raw...)
			x.hist = append(x.hist, c.Raw...)
			continue
		}
		if c.Kind >= 5 {
			x.m.reset(c.LC, c.LP, c.PB)
			have = true
		} else if c.Kind == 4 {
			if !have {
				return nil, nil, false
			}
			x.m.reset(x.m.lc, x.m.lp, x.m.pb)
		} else if !have {
			return nil, nil, false
		}
		x.e.init()
		before := len(x.hist)
		for _, op := range c.Ops {
			if op.Kind == 4 || !x.Put(op) {
				return nil, nil, false
			}
		}
		x.e.flush()
		u := len(x.hist) - before
		cs := len(x.e.out)
		if u < 1 || u > 1<<21 || cs > 1<<16 {
			return nil, nil, false
		}
		ctrl := byte(0x80 | (c.Kind-3)<<5 | ((u-1)>>16)&0x1f)
		z = append(z, ctrl, byte((u-1)>>8), byte(u-1), byte((cs-1)>>8), byte(cs-1))
		if c.Kind >= 5 {
			z = append(z, byte((c.PB*5+c.LP)*9+c.LC))
		}
		z = append(z, x.e.out...)
	}
	z = append(z, 0)
	return z, x.hist, true
}
