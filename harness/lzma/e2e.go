package lzma

import (
	"bytes"
	"io"
)

// Whole-stack harnesses: the real writer and reader stacks run inside the
// interpreter on concrete data; faults, cut points and fragmentation are
// symbolic.

func vSmallW2() Writer2Config {
	return Writer2Config{DictCap: 4096, BufSize: 4096}
}

func vMakeLZMA2(data []byte) []byte {
	var buf bytes.Buffer
	w, err := vSmallW2().NewWriter2(&buf)
	if err != nil {
		panic(err)
	}
	if _, err = w.Write(data); err != nil {
		panic(err)
	}
	if err = w.Close(); err != nil {
		panic(err)
	}
	return buf.Bytes()
}

func VH_E2E_w2_roundtrip() {
	data := []byte("abcabcabc")
	z := vMakeLZMA2(data)
	vObs("len", uint64(len(z)))
	r, err := Reader2Config{DictCap: 4096}.NewReader2(bytes.NewReader(z))
	vAssert(err == nil, "reader opens")
	out, err := io.ReadAll(r)
	vAssert(err == nil, "reads without error")
	vAssert(bytes.Equal(out, data), "round trip")
}

var vText = []byte("abcabcabcXabcabc")

// vChunks builds an LZMA2 stream with several chunk kinds: compressed,
// flushed (second compressed chunk), and - kind 1 - an uncompressed chunk.
func vLZMA2(kind int) (z, data []byte) {
	var buf bytes.Buffer
	w, err := vSmallW2().NewWriter2(&buf)
	if err != nil {
		panic(err)
	}
	switch kind {
	case 0:
		data = vText
		w.Write(data)
	case 1: // flush in the middle: two chunks
		data = vText
		w.Write(data[:9])
		w.Flush()
		w.Write(data[9:])
	case 2: // incompressible start: raw chunk, then compressed chunk
		data = []byte{0x13, 0xa7, 0x5c, 0xe1, 0x08, 0xf4, 0x9b, 0x62}
		w.Write(data)
		w.Flush()
		data = append(data, "aaaaaaaaaaaaaaaaaaaaaaaa"...)
		w.Write(data[8:])
	case 3: // empty
	}
	if err = w.Close(); err != nil {
		panic(err)
	}
	return buf.Bytes(), data
}

func vKinds2() int {
	if vThorough() {
		return 4
	}
	return 3
}

func VH_CUT_r2() {
	kind := vConcretize(int(vNondetU8("kind")) % vKinds2())
	z, data := vLZMA2(kind)
	frag := vConcretize(int(vNondetU8("frag")) % 3)
	cut := vConcretize(int(vNondetU16("cut")) % len(z))
	r, err := Reader2Config{DictCap: 4096}.NewReader2(&vSrc{data: z, end: cut, frag: frag})
	if err != nil {
		vAssert(err != io.EOF, "constructor error is not io.EOF")
		return
	}
	out, err := vReadAll(r, 5)
	vAssert(err != nil && err != io.EOF, "truncated LZMA2 stream is not a clean end of stream")
	vAssert(vIsPrefix(out, data), "delivered bytes are a prefix of the content")
}

func VH_IO2_r2() {
	kind := vConcretize(int(vNondetU8("kind")) % vKinds2())
	z, data := vLZMA2(kind)
	frag := vConcretize(int(vNondetU8("frag")) % 3)
	at := vConcretize(int(vNondetU16("at")) % (len(z) + 1))
	r, err := Reader2Config{DictCap: 4096}.NewReader2(&vSrc{data: z, end: at, frag: frag, failErr: vErrSrc})
	if err != nil {
		vAssert(err == vErrSrc, "constructor returns the source's error")
		return
	}
	out, err := vReadAll(r, 7)
	if at == len(z) {
		// the end chunk was delivered before the failure: a clean end is legitimate
		vAssert(err == io.EOF || err == vErrSrc, "complete stream: clean end or the source's error")
	} else {
		vAssert(err == vErrSrc, "Read returns the source's error")
	}
	vAssert(vIsPrefix(out, data), "delivered bytes are a prefix of the content")
}

// classic .lzma
func vLZMA(kind int) (z, data []byte) {
	data = vText
	cfg := WriterConfig{DictCap: 4096, BufSize: 4096}
	switch kind {
	case 0: // end marker, unknown size
	case 1: // size in header, no marker
		cfg.Size = int64(len(data))
	case 2: // both
		cfg.Size = int64(len(data))
		cfg.EOSMarker = true
	case 3: // binary tree, lc=0 lp=2 pb=0
		cfg.Matcher = BinaryTree
		cfg.Properties = &Properties{LC: 0, LP: 2, PB: 0}
	}
	var buf bytes.Buffer
	w, err := cfg.NewWriter(&buf)
	if err != nil {
		panic(err)
	}
	if _, err = w.Write(data); err != nil {
		panic(err)
	}
	if err = w.Close(); err != nil {
		panic(err)
	}
	return buf.Bytes(), data
}

func vKindsL() int {
	if vThorough() {
		return 4
	}
	return 3
}

func VH_CUT_lzma() {
	kind := vConcretize(int(vNondetU8("kind")) % vKindsL())
	z, data := vLZMA(kind)
	frag := vConcretize(int(vNondetU8("frag")) % 3)
	cut := vConcretize(int(vNondetU16("cut")) % len(z))
	r, err := NewReader(&vSrc{data: z, end: cut, frag: frag})
	if err != nil {
		vAssert(err != io.EOF, "constructor error is not io.EOF")
		return
	}
	out, err := vReadAll(r, 5)
	vAssert(err != nil && err != io.EOF, "truncated .lzma stream is not a clean end of stream")
	vAssert(vIsPrefix(out, data), "delivered bytes are a prefix of the content")
}

func VH_IO2_lzma() {
	kind := vConcretize(int(vNondetU8("kind")) % vKindsL())
	z, data := vLZMA(kind)
	frag := vConcretize(int(vNondetU8("frag")) % 3)
	at := vConcretize(int(vNondetU16("at")) % len(z))
	r, err := NewReader(&vSrc{data: z, end: at, frag: frag, failErr: vErrSrc})
	if err != nil {
		vAssert(err == vErrSrc, "constructor returns the source's error")
		return
	}
	out, err := vReadAll(r, 7)
	vAssert(err != io.EOF, "failing source never gives a clean end")
	vAssert(err == vErrSrc, "Read returns the source's error")
	vAssert(vIsPrefix(out, data), "delivered bytes are a prefix of the content")
}

// IO1 for the LZMA2 writer and the classic writer.
func vFaultySink() *vSink {
	sink := &vSink{failFrom: -1}
	sink.failFrom = vConcretize(int(vNondetU8("failAt"))%10) - 1
	sink.once = vNondetBool("once")
	sink.partial = vConcretize(int(vNondetU8("partial")) % 3)
	return sink
}

func VH_IO1_w2() {
	sink := vFaultySink()
	anyErr := false
	w, err := vSmallW2().NewWriter2(sink)
	if err != nil {
		anyErr = true
	} else {
		if _, err = w.Write([]byte("abc")); err != nil {
			anyErr = true
		}
		if err = w.Flush(); err != nil {
			anyErr = true
		}
		if _, err = w.Write([]byte("de")); err != nil {
			anyErr = true
		}
		if err = w.Close(); err != nil {
			anyErr = true
		} else {
			n0 := len(sink.buf)
			vAssert(w.Close() != nil, "second Close fails")
			_, err = w.Write([]byte("x"))
			vAssert(err != nil, "Write after Close fails")
			vAssert(w.Flush() != nil, "Flush after Close fails")
			vAssert(len(sink.buf) == n0, "calls after Close emit nothing")
		}
	}
	if sink.failed {
		vAssert(anyErr, "a failing sink surfaces as an error from some call")
	} else {
		vAssert(!anyErr, "no error without a sink failure")
		r, err := Reader2Config{DictCap: 4096}.NewReader2(&vSrc{data: sink.buf, end: len(sink.buf)})
		vAssert(err == nil, "output opens")
		out, err := vReadAll(r, 16)
		vAssert(err == io.EOF && string(out) == "abcde", "success means a complete valid stream")
	}
}

func VH_IO1_lzma() {
	sink := vFaultySink()
	withSize := vNondetBool("withSize")
	cfg := WriterConfig{DictCap: 4096, BufSize: 4096}
	if withSize {
		cfg.Size = 5
	}
	anyErr := false
	w, err := cfg.NewWriter(sink)
	if err != nil {
		anyErr = true
	} else {
		if _, err = w.Write([]byte("abc")); err != nil {
			anyErr = true
		}
		if _, err = w.Write([]byte("de")); err != nil {
			anyErr = true
		}
		if err = w.Close(); err != nil {
			anyErr = true
		}
	}
	if sink.failed {
		vAssert(anyErr, "a failing sink surfaces as an error from some call")
	} else {
		vAssert(!anyErr, "no error without a sink failure")
		r, err := NewReader(&vSrc{data: sink.buf, end: len(sink.buf)})
		vAssert(err == nil, "output opens")
		out, err := vReadAll(r, 16)
		vAssert(err == io.EOF && string(out) == "abcde", "success means a complete valid stream")
	}
}

// C13 for the LZMA2 and classic readers.
func VH_FRAG_r2() {
	kind := vConcretize(int(vNondetU8("kind")) % vKinds2())
	z, data := vLZMA2(kind)
	frag := vConcretize(int(vNondetU8("frag")) % 4)
	vAssume((kind*4+frag)%vShards() == vShardIdx())
	r, err := Reader2Config{DictCap: 4096}.NewReader2(&vSrc{data: z, end: len(z), frag: frag})
	vAssert(err == nil, "valid stream opens under any fragmentation")
	nsym := 3
	if vThorough() {
		nsym = 5
	}
	out, err := vReadSched(r, nsym)
	vAssert(err == io.EOF, "clean end of stream")
	vAssert(bytes.Equal(out, data), "same bytes for every read schedule and fragmentation")
	for i := 0; i < 3; i++ {
		p := make([]byte, 1+i)
		n, err := r.Read(p)
		vAssert(n == 0 && err == io.EOF, "EOF is sticky")
	}
}

func VH_FRAG_lzma() {
	kind := vConcretize(int(vNondetU8("kind")) % vKindsL())
	z, data := vLZMA(kind)
	frag := vConcretize(int(vNondetU8("frag")) % 4)
	vAssume((kind*4+frag)%vShards() == vShardIdx())
	r, err := NewReader(&vSrc{data: z, end: len(z), frag: frag})
	vAssert(err == nil, "valid stream opens under any fragmentation")
	nsym := 3
	if vThorough() {
		nsym = 5
	}
	out, err := vReadSched(r, nsym)
	vAssert(err == io.EOF, "clean end of stream")
	vAssert(bytes.Equal(out, data), "same bytes for every read schedule and fragmentation")
	for i := 0; i < 3; i++ {
		p := make([]byte, 1+i)
		n, err := r.Read(p)
		vAssert(n == 0 && err == io.EOF, "EOF is sticky")
	}
}
