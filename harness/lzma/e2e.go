package lzma

import (
	"bytes"
	"io"
)

// Whole-stack harnesses: the real writer and reader stacks run inside the
// interpreter on concrete data; faults, cut points and fragmentation are
// symbolic.

func vSmallW2() Writer2Config {
	return Writer2Config{DictCap: 4096, BufSize: 4096}
}

func vMakeLZMA2(data []byte) []byte {
	var buf bytes.Buffer
	w, err := vSmallW2().NewWriter2(&buf)
	if err != nil {
		panic(err)
	}
	if _, err = w.Write(data); err != nil {
		panic(err)
	}
	if err = w.Close(); err != nil {
		panic(err)
	}
	return buf.Bytes()
}

func VH_E2E_w2_roundtrip() {
	data := []byte("abcabcabc")
	z := vMakeLZMA2(data)
	vObs("len", uint64(len(z)))
	r, err := Reader2Config{DictCap: 4096}.NewReader2(bytes.NewReader(z))
	vAssert(err == nil, "reader opens")
	out, err := io.ReadAll(r)
	vAssert(err == nil, "reads without error")
	vAssert(bytes.Equal(out, data), "round trip")
}
