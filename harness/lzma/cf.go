package lzma

import (
	"bytes"
	"io"
)

// CF (C14) for the lzma package: classic writer/reader and LZMA2 writer/reader.

func VH_CF_lzma() {
	vForbidGlobalWrites()
	bt := vNondetBool("binTree")
	x, y := []byte("abcabcabcXabcabc"), []byte{0, 0, 9, 9, 0, 0, 9, 9, 1}
	mk := func(p []byte, sink *bytes.Buffer) *Writer {
		cfg := WriterConfig{DictCap: 4096, BufSize: 4096}
		if bt {
			cfg.Matcher = BinaryTree
		}
		w, err := cfg.NewWriter(sink)
		vAssert(err == nil, "writer constructed")
		return w
	}
	var sx, sy, bx, by bytes.Buffer
	w := mk(x, &sx)
	w.Write(x)
	vAssert(w.Close() == nil, "solo X")
	w = mk(y, &sy)
	w.Write(y)
	vAssert(w.Close() == nil, "solo Y")
	wx, wy := mk(x, &bx), mk(y, &by)
	vAssert(vSharedObjects(wx, wy) == 0, "two writers share no heap object")
	wx.Write(x[:7])
	wy.Write(y)
	vAssert(vSharedObjects(wx, wy) == 0, "two writers share no heap object after writing")
	vAssert(wy.Close() == nil, "close Y")
	wx.Write(x[7:])
	vAssert(wx.Close() == nil, "close X")
	vAssert(bytes.Equal(bx.Bytes(), sx.Bytes()) && bytes.Equal(by.Bytes(), sy.Bytes()), "interleaved writers produce exactly their solo output")
	rx, err := NewReader(bytes.NewReader(sx.Bytes()))
	vAssert(err == nil, "reader X")
	ry, err := NewReader(bytes.NewReader(sy.Bytes()))
	vAssert(err == nil, "reader Y")
	vAssert(vSharedObjects(rx, ry) == 0, "two readers share no heap object")
	px, py := make([]byte, 5), make([]byte, 4)
	var ox, oy []byte
	for i := 0; i < 12; i++ {
		n, e1 := rx.Read(px)
		ox = append(ox, px[:n]...)
		m, e2 := ry.Read(py)
		oy = append(oy, py[:m]...)
		vAssert(vSharedObjects(rx, ry) == 0, "two readers share no heap object while reading")
		if e1 == io.EOF && e2 == io.EOF {
			break
		}
	}
	vAssert(bytes.Equal(ox, x) && bytes.Equal(oy, y), "interleaved readers deliver their own content")
}

func VH_CF_w2() {
	vForbidGlobalWrites()
	bt := vNondetBool("binTree")
	x := []byte("abcabcabcXabcabc")
	y := []byte{0x13, 0xa7, 0x5c, 0xe1, 0x08, 0xf4, 0x9b, 0x62, 'a', 'a', 'a', 'a', 'a', 'a', 'a', 'a'} // raw chunk, then compressed
	mk := func(sink *bytes.Buffer) *Writer2 {
		cfg := Writer2Config{DictCap: 4096, BufSize: 4096}
		if bt {
			cfg.Matcher = BinaryTree
		}
		w, err := cfg.NewWriter2(sink)
		vAssert(err == nil, "writer constructed")
		return w
	}
	run := func(p []byte, flushAt int) []byte {
		var b bytes.Buffer
		w := mk(&b)
		w.Write(p[:flushAt])
		w.Flush()
		w.Write(p[flushAt:])
		vAssert(w.Close() == nil, "close")
		return b.Bytes()
	}
	soloX, soloY := run(x, 9), run(y, 8)
	var bx, by bytes.Buffer
	wx, wy := mk(&bx), mk(&by)
	vAssert(!vIsSym() || vSharedObjects(wx, wx) > 10, "the reachability oracle sees a writer's own objects")
	vAssert(vSharedObjects(wx, wy) == 0, "two writers share no heap object")
	wx.Write(x[:9])
	wy.Write(y[:8])
	wy.Flush() // Y emits an uncompressed chunk: its coder state is rolled back to the snapshot
	wx.Flush()
	vAssert(vSharedObjects(wx, wy) == 0, "two writers share no heap object after flushing")
	wy.Write(y[8:])
	wx.Write(x[9:])
	vAssert(wy.Close() == nil && wx.Close() == nil, "close both")
	vAssert(bytes.Equal(bx.Bytes(), soloX) && bytes.Equal(by.Bytes(), soloY), "interleaved writers produce exactly their solo output")
	// a writer created after others were closed is unaffected by them (pools, caches)
	vAssert(bytes.Equal(run(y, 8), soloY) && bytes.Equal(run(x, 9), soloX), "output is a function of configuration and input only")
	rx, err := Reader2Config{DictCap: 4096}.NewReader2(bytes.NewReader(soloX))
	vAssert(err == nil, "reader X")
	ry, err := Reader2Config{DictCap: 4096}.NewReader2(bytes.NewReader(soloY))
	vAssert(err == nil, "reader Y")
	px, py := make([]byte, 5), make([]byte, 4)
	var ox, oy []byte
	for i := 0; i < 12; i++ {
		n, e1 := rx.Read(px)
		ox = append(ox, px[:n]...)
		m, e2 := ry.Read(py)
		oy = append(oy, py[:m]...)
		vAssert(vSharedObjects(rx, ry) == 0, "two readers share no heap object while reading")
		if e1 == io.EOF && e2 == io.EOF {
			break
		}
	}
	vAssert(bytes.Equal(ox, x) && bytes.Equal(oy, y), "interleaved readers deliver their own content")
}
