package lzma

import "io"

// Lemmas RC1–RC3: probability update and range coder arithmetic, one step
// from an arbitrary invariant state, against the LZMA specification
// (lzma-specification.txt, "Range Decoder" / LZMA SDK RangeEnc).

const (
	specTop      = 1 << 24
	specProbBits = 11
	specMove     = 5
)

func specBound(r uint32, p uint16) uint32 { return (r >> specProbBits) * uint32(p) }
func specProb0(p uint16) uint16           { return p + ((1<<specProbBits)-p)>>specMove }
func specProb1(p uint16) uint16           { return p - p>>specMove }

// probability invariant: values reachable from 1024 by the two updates
func probInv(p prob) bool { return 31 <= p && p <= 2017 }

func VH_RC1_prob() {
	p := prob(vNondetU16("p"))
	vAssume(probInv(p))
	r := vNondetU32("range")
	vAssert(p.bound(r) == specBound(r, uint16(p)), "bound = spec")
	if r >= specTop {
		b := p.bound(r)
		vAssert(b > 0 && b < r, "0 < bound < range (both symbols keep a non-empty interval)")
	}
	q := p
	q.inc()
	vAssert(uint16(q) == specProb0(uint16(p)), "inc = spec update for bit 0")
	vAssert(probInv(q), "inc keeps 31..2017")
	q = p
	q.dec()
	vAssert(uint16(q) == specProb1(uint16(p)), "dec = spec update for bit 1")
	vAssert(probInv(q), "dec keeps 31..2017")
	vAssert(probInv(probInit), "initial value inside the invariant")
}

func rdInv(d *rangeDecoder) bool { return d.nrange >= specTop && d.code < d.nrange }

func VH_RC2_decodeBit() {
	src := &vByteSrc{name: "src"}
	d := &rangeDecoder{br: src, nrange: vNondetU32("range"), code: vNondetU32("code")}
	p := prob(vNondetU16("p"))
	// code is arbitrary: corrupt input can leave code >= range (see VH_RC2_direct);
	// the arithmetic must agree with the spec and stay normalised regardless.
	vAssume(d.nrange >= specTop && probInv(p))
	inv0 := rdInv(d)
	r0, c0, p0 := d.nrange, d.code, uint16(p)
	b, err := d.DecodeBit(&p)
	// specification
	bound := specBound(r0, p0)
	var sb, sr, sc uint32
	var sp uint16
	if c0 < bound {
		sb, sr, sc, sp = 0, bound, c0, specProb0(p0)
	} else {
		sb, sr, sc, sp = 1, r0-bound, c0-bound, specProb1(p0)
	}
	norm := sr < specTop
	vAssert(b == sb, "decoded bit = spec")
	vAssert(uint16(p) == sp, "probability update = spec")
	vAssert(probInv(p), "probability stays in 31..2017")
	if !norm {
		vAssert(err == nil && src.calls == 0, "no byte consumed without normalisation")
		vAssert(d.nrange == sr && d.code == sc, "range/code = spec")
	} else {
		vAssert(src.calls == 1, "exactly one byte requested for normalisation")
		switch src.done {
		case 0:
			vAssert(err == nil, "no error when the source delivers")
			vAssert(d.nrange == sr<<8 && d.code == sc<<8|uint32(src.last), "normalised range/code = spec")
		case 1:
			vAssert(err != nil, "end of source is reported as an error")
		case 2:
			vAssert(err == vErrSrc, "source error is passed up unchanged")
		}
	}
	if err == nil {
		vAssert(d.nrange >= specTop, "range stays normalised for any input")
		if inv0 {
			vAssert(rdInv(d), "decoder invariant code < range preserved")
		}
	}
}

func VH_RC2_direct() {
	src := &vByteSrc{name: "src"}
	d := &rangeDecoder{br: src, nrange: vNondetU32("range"), code: vNondetU32("code")}
	vAssume(rdInv(d))
	r0, c0 := d.nrange, d.code
	b, err := d.DirectDecodeBit()
	sr := r0 >> 1
	var sb, sc uint32
	if c0 >= sr {
		sb, sc = 1, c0-sr
	} else {
		sb, sc = 0, c0
	}
	vAssert(b == sb, "direct bit = spec")
	if sr >= specTop {
		vAssert(err == nil && src.calls == 0 && d.nrange == sr && d.code == sc, "state = spec, no byte consumed")
	} else {
		vAssert(src.calls == 1, "one byte requested")
		switch src.done {
		case 0:
			vAssert(err == nil && d.nrange == sr<<8 && d.code == sc<<8|uint32(src.last), "normalised state = spec")
		case 1:
			vAssert(err != nil, "end of source is reported as an error")
		case 2:
			vAssert(err == vErrSrc, "error passed up")
		}
	}
	if err == nil {
		// Halving an odd range loses one unit: code == range-1 then ends at
		// code' == range' — the case the LZMA SDK flags as a corrupt stream.
		// A well-formed stream never gets there (encoder interval arithmetic).
		vAssert(rdInv(d) || (r0&1 == 1 && c0 == r0-1), "decoder invariant preserved except at the SDK's 'corrupted' corner")
		vAssert(d.nrange >= specTop, "range stays normalised for any input")
	}
}

func VH_RC2_init() {
	src := &vByteSrc{name: "src"}
	var seen [5]byte
	_ = seen
	d, err := newRangeDecoder(src)
	if err == nil {
		vAssert(src.calls == 5, "exactly five bytes consumed")
		vAssert(d != nil && d.nrange == 0xffffffff, "initial range")
		vAssert(d.code < d.nrange, "initial code below range")
		vAssert(rdInv(d), "initial state satisfies the invariant")
		return
	}
	vAssert(src.calls <= 5, "never more than five bytes")
	if src.done == 2 {
		vAssert(err == vErrSrc, "source error passed up")
	}
	if src.done == 1 {
		vAssert(err != nil, "early end is reported as an error")
	}
}

// VH_RC2_init_bytes: acceptance condition in terms of the five bytes.
func VH_RC2_init_bytes() {
	data := vNondetBytes("d", 5)
	k := 0
	src := vFixedSrc{p: data, k: &k}
	d, err := newRangeDecoder(src)
	code := uint32(data[1])<<24 | uint32(data[2])<<16 | uint32(data[3])<<8 | uint32(data[4])
	vAssert((err == nil) == (data[0] == 0 && code != 0xffffffff), "accepts iff first byte 0 and code < 0xffffffff")
	if err == nil {
		vAssert(d.code == code && k == 5, "code is bytes 1..4 big endian")
	}
}

type vFixedSrc struct {
	p []byte
	k *int
}

func (s vFixedSrc) ReadByte() (byte, error) {
	if *s.k >= len(s.p) {
		return 0, io.EOF
	}
	c := s.p[*s.k]
	*s.k++
	return c, nil
}

// ---- encoder -------------------------------------------------------------

// reInv is invariant J of DESIGN §4: the pending number alpha = (cache,
// cacheLen-1 bytes 0xff, low incl. a carry in bit 32) plus the range never
// exceeds 256^(cacheLen+4).  Written out, alpha+range <= 256^(cacheLen+4) is
// low+range <= 2^32 + (255-cache)*256^(cacheLen+3); together with K:
// low+range <= 2^33 (at most one carry pending) this is non-trivial only for
// cache == 0xff, which gives the width-free form used here.
func reInv(e *rangeEncoder) bool {
	return e.nrange >= specTop && e.cacheLen >= 1 && e.low < 1<<33 &&
		e.low+uint64(e.nrange) <= 1<<33 &&
		(e.cache != 0xff || e.low+uint64(e.nrange) <= 1<<32)
}

func vNewEnc(maxCacheLen int64) (*rangeEncoder, *vRecBW) {
	bw := &vRecBW{failAt: -1}
	e := &rangeEncoder{lbw: &LimitedByteWriter{BW: bw, N: vNondetI64("N")},
		nrange: vNondetU32("range"), low: vNondetU64("low"), cacheLen: vNondetI64("cacheLen"), cache: vNondetU8("cache")}
	vAssume(reInv(e) && e.cacheLen <= maxCacheLen)
	vAssume(e.lbw.N >= 0 && e.lbw.N < 1<<40)
	return e, bw
}

// specShift is the LZMA SDK's RangeEnc_ShiftLow applied to (low with carry
// in bit 32, cache, cacheLen); it returns the bytes to emit as a big-endian
// number with count, and the new state.
func specShift(low uint64, cache byte, cacheLen int64) (emit uint64, n int64, nlow uint64, ncache byte, ncacheLen int64) {
	if uint32(low) < 0xff000000 || low>>32 != 0 {
		carry := byte(low >> 32)
		emit = uint64(cache + carry)
		n = 1
		for i := int64(1); i < cacheLen; i++ {
			emit = emit<<8 | uint64(byte(0xff+carry))
			n++
		}
		cache = byte(uint32(low) >> 24)
		cacheLen = 0
	}
	cacheLen++
	return emit, n, uint64(uint32(low) << 8), cache, cacheLen
}

func vEmitted(bw *vRecBW) uint64 {
	var x uint64
	for i := 0; i < bw.n; i++ {
		x = x<<8 | uint64(bw.buf[i])
	}
	return x
}

func vMaxCacheLen() int64 {
	if vThorough() {
		return 7
	}
	return 4
}

func VH_RC3_encodeBit() {
	vUnwind(10)
	e, bw := vNewEnc(vMaxCacheLen())
	p := prob(vNondetU16("p"))
	vAssume(probInv(p))
	b := vNondetU32("b")
	r0, low0, cl0, cache0, p0, n0 := e.nrange, e.low, e.cacheLen, e.cache, uint16(p), e.lbw.N
	avail0 := e.Available()
	err := e.EncodeBit(b, &p)
	// spec: interval update (the mirror image of the decoder's)
	bound := specBound(r0, p0)
	var sr uint32
	var slow uint64
	var sp uint16
	if b&1 == 0 {
		sr, slow, sp = bound, low0, specProb0(p0)
	} else {
		sr, slow, sp = r0-bound, low0+uint64(bound), specProb1(p0)
	}
	vAssert(uint16(p) == sp, "probability update = spec (same as decoder)")
	vAssert(slow < 1<<33, "low with carry fits 33 bits")
	if sr >= specTop {
		vAssert(err == nil && bw.n == 0, "no output without normalisation")
		vAssert(e.nrange == sr && e.low == slow && e.cacheLen == cl0 && e.cache == cache0, "state = spec")
		vAssert(reInv(e), "encoder invariant preserved")
		return
	}
	emit, n, nlow, ncache, ncl := specShift(slow, cache0, cl0)
	if n > 0 && avail0 < 1 {
		vAssert(err == ErrLimit, "limit reported")
		vAssert(bw.n == 0, "ErrLimit before any byte of the failing shift is written")
		return
	}
	vAssert(err == nil, "no error with space available")
	vAssert(int64(bw.n) == n && vEmitted(bw) == emit, "bytes written = SDK ShiftLow")
	vAssert(e.nrange == sr<<8 && e.low == nlow && e.cache == ncache && e.cacheLen == ncl, "state after shift = SDK ShiftLow")
	vAssert(reInv(e), "encoder invariant preserved")
	// value preservation with carry: emitted bytes are exactly the high part
	if n > 0 {
		carry := slow >> 32
		high := uint64(cache0)<<(8*uint(cl0-1)) + (uint64(1)<<(8*uint(cl0-1)) - 1) + carry
		vAssert(emit == high, "emitted number = pending high part + carry")
		vAssert(uint64(cache0)+carry <= 0xff, "cache+carry never wraps")
	}
	// accounting behind Available(): written + cacheLen grows by exactly one per shift
	vAssert((n0-e.lbw.N)+e.cacheLen == cl0+1, "written+cacheLen grows by one per shift")
	vAssert(e.Available() == avail0-1, "Available drops by one per shift")
}

func VH_RC3_direct() {
	vUnwind(10)
	e, bw := vNewEnc(vMaxCacheLen())
	b := vNondetU32("b")
	r0, low0, cl0, cache0 := e.nrange, e.low, e.cacheLen, e.cache
	avail0 := e.Available()
	err := e.DirectEncodeBit(b)
	sr := r0 >> 1
	slow := low0
	if b&1 == 1 {
		slow += uint64(sr)
	}
	if sr >= specTop {
		vAssert(err == nil && bw.n == 0 && e.nrange == sr && e.low == slow && e.cacheLen == cl0 && e.cache == cache0, "state = spec")
		vAssert(reInv(e), "encoder invariant preserved")
		return
	}
	emit, n, nlow, ncache, ncl := specShift(slow, cache0, cl0)
	if n > 0 && avail0 < 1 {
		vAssert(err == ErrLimit && bw.n == 0, "limit reported before any byte is written")
		return
	}
	vAssert(err == nil, "no error with space available")
	vAssert(int64(bw.n) == n && vEmitted(bw) == emit, "bytes written = SDK ShiftLow")
	vAssert(e.nrange == sr<<8 && e.low == nlow && e.cache == ncache && e.cacheLen == ncl, "state after shift = SDK ShiftLow")
	vAssert(reInv(e), "encoder invariant preserved")
}

// Close flushes exactly the pending number: cacheLen+4 bytes
// cache, 0xff.., low (big endian), given enough space.
func VH_RC3_close() {
	vUnwind(10)
	maxCL := int64(3)
	e, bw := vNewEnc(maxCL)
	low0, cl0, cache0, n0 := e.low, e.cacheLen, e.cache, e.lbw.N
	// Close writes cacheLen+4 bytes, but every write still demands
	// Available() >= 1 with the reserve of cacheLen+4 included, so it needs
	// Available() >= 5 on entry (the encoder's margin of 16 provides that as
	// long as one operation costs at most 11 bytes).
	vAssume(e.low < 1<<32)
	vAssume(e.Available() >= 5)
	_ = n0
	err := e.Close()
	vAssert(err == nil, "Close succeeds when Available() >= 5")
	vAssert(int64(bw.n) == cl0+4, "Close emits exactly cacheLen+4 bytes")
	vAssert(bw.buf[0] == cache0, "first byte is the cache")
	for i := int64(1); i < cl0; i++ {
		vAssert(bw.buf[i] == 0xff, "pending 0xff bytes follow")
	}
	l := uint32(bw.buf[cl0])<<24 | uint32(bw.buf[cl0+1])<<16 | uint32(bw.buf[cl0+2])<<8 | uint32(bw.buf[cl0+3])
	vAssert(uint64(l) == low0, "then low, big endian")
	vAssert(e.Available() >= -5, "accounting stays sane")
}

// From the initial state the first byte that will be emitted is 0 (what
// newRangeDecoder demands): cache = 0 and no carry can reach it.
func VH_RC3_initial() {
	bw := &vRecBW{failAt: -1}
	e, err := newRangeEncoder(bw)
	vAssert(err == nil && e != nil, "constructor succeeds")
	vAssert(reInv(e), "initial state satisfies the invariant")
	vAssert(e.cache == 0 && e.cacheLen == 1 && e.low == 0 && e.nrange == 0xffffffff, "initial state = spec")
	vAssert(e.low+uint64(e.nrange) <= 1<<32, "no carry can ever reach the first byte")
	lbw := &LimitedByteWriter{BW: bw, N: vNondetI64("N")}
	e2, _ := newRangeEncoder(lbw)
	vAssert(e2.lbw == lbw, "a LimitedByteWriter is used as is (limit honoured)")
}

// A sink error is returned unchanged and stops the shift.
func VH_RC3_sinkError() {
	vUnwind(10)
	e, bw := vNewEnc(3)
	bw.failAt = int(vNondetU8("failAt"))
	vAssume(bw.failAt <= 3)
	vAssume(e.lbw.N >= 16)
	p := prob(vNondetU16("p"))
	vAssume(probInv(p))
	err := e.EncodeBit(vNondetU32("b"), &p)
	if err != nil {
		vAssert(err == vErrSink, "sink error passed up unchanged")
		vAssert(bw.n == bw.failAt, "nothing written after the failure")
	}
}
