package lzma

import "io"

// Nondeterministic environment models shared by the lzma harnesses.


// vByteSrc is an io.ByteReader returning arbitrary bytes; it may end
// (io.EOF) or fail (vErrSrc) at any call and stays ended/failed afterwards.
type vByteSrc struct {
	name  string
	calls int
	done  int // 0 running, 1 ended, 2 failed
	last  byte
	max   int // calls allowed before the model stops the path (bound)
}

func (s *vByteSrc) ReadByte() (byte, error) {
	s.calls++
	if s.max > 0 && s.calls > s.max {
		vAssume(false)
	}
	if s.done == 0 {
		k := vNondetU8(s.name + ".event")
		vAssume(k <= 2)
		s.done = int(k)
	}
	switch s.done {
	case 1:
		return 0, io.EOF
	case 2:
		return 0, vErrSrc
	}
	s.last = vNondetU8(s.name + ".byte")
	return s.last, nil
}

// vRecBW records the bytes written through io.ByteWriter; it fails from
// call number failAt on (failAt < 0: never).
type vRecBW struct {
	buf    [16]byte
	n      int
	failAt int
}

func (w *vRecBW) WriteByte(c byte) error {
	if w.failAt >= 0 && w.n >= w.failAt {
		return vErrSink
	}
	if w.n >= len(w.buf) {
		vAssume(false)
	}
	w.buf[w.n] = c
	w.n++
	return nil
}
