package lzma

// Lemmas H2.1 / H2.2 (C16, C02, C03): LZMA2 control byte, chunk header
// layout and the chunk-state automaton, compared with an independent
// transcription of the format (liblzma lzma2_decoder.c control logic).

// ---- reference specification -------------------------------------------

// specChunkKind classifies a control byte: 0 end, 1 raw+dict reset, 2 raw,
// 3 LZMA, 4 LZMA+state reset, 5 +new props, 6 +dict reset; -1 invalid.
func specChunkKind(ctrl byte) int {
	if ctrl >= 0x80 {
		return 3 + int(ctrl>>5)&3
	}
	if ctrl <= 2 {
		return int(ctrl)
	}
	return -1
}

// The decoder keeps two flags: needDictReset (initially true) and
// needProps (initially true). specStep returns the new flags and whether
// the chunk kind is legal. kind 0 = end of stream (always legal).
func specStep(needDict, needProps bool, kind int) (nd, np bool, ok bool, end bool) {
	switch kind {
	case 0:
		return needDict, needProps, true, true
	case 1: // raw with dictionary reset
		return false, true, true, false
	case 2: // raw
		if needDict {
			return needDict, needProps, false, false
		}
		return false, needProps, true, false
	case 3, 4: // LZMA without new properties
		if needDict || needProps {
			return needDict, needProps, false, false
		}
		return false, false, true, false
	case 5: // new props
		if needDict {
			return needDict, needProps, false, false
		}
		return false, false, true, false
	case 6: // new props + dict reset
		return false, false, true, false
	}
	return needDict, needProps, false, false
}

// flags of the library's state letters under the correspondence of DESIGN
// appendix D: S=(1,1) R=(0,1) L=U=(0,0).
func specFlags(c chunkState) (nd, np, valid, stopped bool) {
	switch c {
	case 'S':
		return true, true, true, false
	case 'R':
		return false, true, true, false
	case 'L', 'U':
		return false, false, true, false
	case 'T':
		return false, false, true, true
	}
	return false, false, false, false
}

// library chunk type -> spec kind
func specKindOfType(t chunkType) int {
	switch t {
	case cEOS:
		return 0
	case cUD:
		return 1
	case cU:
		return 2
	case cL:
		return 3
	case cLR:
		return 4
	case cLRN:
		return 5
	case cLRND:
		return 6
	}
	return -1
}

// ---- harnesses ----------------------------------------------------------

func VH_H21_type() {
	h := vNondetU8("h")
	c, err := headerChunkType(h)
	k := specChunkKind(h)
	vAssert((err == nil) == (k >= 0), "control byte accepted iff spec-valid")
	if err == nil {
		vAssert(specKindOfType(c) == k, "chunk kind = spec kind")
		n := headerLen(c)
		want := 1
		switch {
		case k == 1 || k == 2:
			want = 3
		case k == 3 || k == 4:
			want = 5
		case k >= 5:
			want = 6
		}
		vAssert(n == want, "header length = spec")
	} else {
		vAssert(h >= 3 && h <= 0x7f, "only 0x03..0x7f rejected")
	}
}

func VH_H21_marshal() {
	var h chunkHeader
	h.ctype = chunkType(vNondetU8("ctype"))
	h.uncompressed = vNondetU32("u")
	h.compressed = vNondetU16("c")
	h.props.LC = int(vNondetU8("lc"))
	h.props.LP = int(vNondetU8("lp"))
	h.props.PB = int(vNondetU8("pb"))
	vAssume(h.ctype <= cLRND)
	// the writer only stores sizes minus one that fit the fields
	vAssume(h.uncompressed < 1<<21)
	if h.ctype == cU || h.ctype == cUD {
		vAssume(h.uncompressed < 1<<16)
	}
	data, err := h.MarshalBinary()
	propsOK := h.props.LC >= 0 && h.props.LC <= 8 && h.props.LP >= 0 && h.props.LP <= 4 && h.props.PB >= 0 && h.props.PB <= 4
	vAssert((err == nil) == propsOK, "marshal fails only for invalid properties")
	if err != nil {
		return
	}
	k := specKindOfType(h.ctype)
	vAssert(specChunkKind(data[0]) == k, "control byte encodes the kind")
	switch {
	case k == 0:
		vAssert(len(data) == 1 && data[0] == 0, "end chunk is one zero byte")
	case k <= 2:
		vAssert(len(data) == 3, "raw header has 3 bytes")
		vAssert(uint32(data[1])<<8|uint32(data[2]) == h.uncompressed, "raw size field")
	default:
		vAssert(len(data) == 5 || len(data) == 6, "lzma header has 5 or 6 bytes")
		u := uint32(data[0]&0x1f)<<16 | uint32(data[1])<<8 | uint32(data[2])
		vAssert(u == h.uncompressed, "uncompressed size field (21 bits)")
		vAssert(uint16(data[3])<<8|uint16(data[4]) == h.compressed, "compressed size field")
		if k >= 5 {
			vAssert(len(data) == 6, "props byte present")
			vAssert(int(data[5]) == (h.props.PB*5+h.props.LP)*9+h.props.LC, "props byte = (pb*5+lp)*9+lc")
		} else {
			vAssert(len(data) == 5, "no props byte")
		}
	}
	// round trip through the library's parser
	var g chunkHeader
	err = g.UnmarshalBinary(data)
	vAssert(err == nil, "own header parses")
	vAssert(g.ctype == h.ctype, "type round trips")
	if k >= 1 {
		vAssert(g.uncompressed == h.uncompressed, "size round trips")
	}
	if k >= 3 {
		vAssert(g.compressed == h.compressed, "compressed size round trips")
	}
	if k >= 5 {
		vAssert(g.props == h.props, "properties round trip")
	}
}

func VH_H21_unmarshal() {
	n := int(vNondetU8("n"))
	vAssume(n <= 7)
	n = vConcretize(n)
	data := vNondetBytes("d", n)
	var h chunkHeader
	err := h.UnmarshalBinary(data)
	if n == 0 {
		vAssert(err != nil, "empty header rejected")
		return
	}
	k := specChunkKind(data[0])
	want := 1
	switch {
	case k == 1 || k == 2:
		want = 3
	case k == 3 || k == 4:
		want = 5
	case k >= 5:
		want = 6
	}
	propsOK := true
	if k >= 5 && n == want {
		propsOK = data[5] < 225
	}
	vAssert((err == nil) == (k >= 0 && n == want && propsOK), "accepted iff kind valid, length exact, props < 225")
	if err != nil {
		return
	}
	vAssert(specKindOfType(h.ctype) == k, "kind")
	switch {
	case k == 0:
		vAssert(h.uncompressed == 0 && h.compressed == 0, "end chunk has no sizes")
	case k <= 2:
		vAssert(h.uncompressed == uint32(data[1])<<8|uint32(data[2]), "raw size")
	default:
		vAssert(h.uncompressed == uint32(data[0]&0x1f)<<16|uint32(data[1])<<8|uint32(data[2]), "uncompressed")
		vAssert(h.compressed == uint16(data[3])<<8|uint16(data[4]), "compressed")
		if k >= 5 {
			d := int(data[5])
			vAssert(h.props.LC == d%9 && h.props.LP == (d/9)%5 && h.props.PB == d/45, "props decoded per spec")
		}
	}
}

func VH_H22_next() {
	s := chunkState(vNondetU8("state"))
	t := chunkType(vNondetU8("ctype"))
	nd, np, valid, stopped := specFlags(s)
	c := s
	err := c.next(t)
	if !valid {
		vAssert(err != nil, "unknown state letter is an error")
		return
	}
	k := specKindOfType(t)
	if stopped {
		vAssert(err != nil, "nothing is accepted after the end chunk")
		vAssert(c == s, "state unchanged on error")
		return
	}
	nd2, np2, ok, end := specStep(nd, np, k)
	vAssert((err == nil) == ok, "chunk accepted iff the format allows it")
	if err != nil {
		vAssert(c == s, "state unchanged on error")
		return
	}
	cnd, cnp, cvalid, cstopped := specFlags(c)
	vAssert(cvalid, "successor is a known state")
	vAssert(cstopped == end, "stops exactly on the end chunk")
	if !end {
		vAssert(cnd == nd2 && cnp == np2, "successor flags = spec flags")
		// U is entered exactly after a raw chunk that leaves no reset pending
		vAssert((c == 'U') == (k == 2 && !np2), "U marks 'last chunk was raw, props still valid'")
	}
}

func VH_H22_default() {
	s := chunkState(vNondetU8("state"))
	_, _, valid, stopped := specFlags(s)
	vAssume(valid && !stopped)
	t := s.defaultChunkType()
	vAssert(t >= cL, "default type is an LZMA chunk")
	c := s
	vAssert(c.next(t) == nil, "default chunk type is legal in its state")
	vAssert(c == 'L', "after an LZMA chunk the state is L")
	// minimality: it is the weakest legal LZMA kind
	if t > cL {
		c2 := s
		vAssert(c2.next(t-1) != nil, "no weaker LZMA kind would be legal")
	}
}
