package lzma

import (
	"bytes"
	"io"
)

// RT (C06, C07, C08, C16 writer side): real writers on every input over a
// two-letter alphabet up to a bounded length; output judged by the
// library's reader and by the reference decoder (spec_lzma.go).

func vRTLen() int {
	if vThorough() {
		return 5
	}
	return 4
}

func vBits(name string, n int, lo, hi byte) []byte {
	p := make([]byte, n)
	for i := range p {
		p[i] = lo
		if vConcretize(int(vNondetU8(name))&1) == 1 {
			p[i] = hi
		}
	}
	return p
}

var vPropSet = []Properties{{3, 0, 2}, {0, 0, 0}, {4, 1, 3}, {0, 4, 0}, {4, 0, 1}, {1, 3, 3}}

// classic .lzma: all termination modes, explicit-size contract.
func VH_RT_lzma() {
	variant := vConcretize(int(vNondetU8("variant")) % 12)
	vAssume(variant%vShards() == vShardIdx())
	props := vPropSet[variant%6]
	cfg := WriterConfig{Properties: &props, DictCap: 4096, BufSize: 4096}
	if variant >= 6 {
		cfg.Matcher = BinaryTree
		cfg.BufSize = 273
	}
	n := vConcretize(int(vNondetU8("n")) % (vRTLen() + 1))
	data := vBits("bit", n, 0, 'a')
	mode := vConcretize(int(vNondetU8("mode")) % 3) // 0 marker only, 1 size only, 2 both
	declared := int64(n)
	if mode >= 1 {
		cfg.SizeInHeader = true
		// the declared size may also be one more or one less than what is written
		declared = int64(n) + int64(vConcretize(int(vNondetU8("delta"))%3)) - 1
		vAssume(declared >= 0)
		cfg.Size = declared
		cfg.EOSMarker = mode == 2
	}
	split := vConcretize(int(vNondetU8("split")) % (n + 1))
	var sink bytes.Buffer
	w, err := cfg.NewWriter(&sink)
	vAssert(err == nil, "valid configuration accepted")
	k1, err1 := w.Write(data[:split])
	k2, err2 := w.Write(data[split:])
	cerr := w.Close()
	accepted := int64(k1 + k2)
	if mode >= 1 {
		vAssert(accepted <= declared, "never accepts more bytes than the declared size")
		if int64(n) > declared {
			vAssert(err1 != nil || err2 != nil, "surplus bytes are refused")
		} else {
			vAssert(err1 == nil && err2 == nil && accepted == int64(n), "bytes within the declared size are accepted")
		}
		vAssert((cerr == nil) == (accepted == declared), "Close succeeds iff exactly the declared number of bytes was written")
		if cerr != nil {
			return
		}
	} else {
		vAssert(err1 == nil && err2 == nil && cerr == nil && accepted == int64(n), "writing and closing succeeds")
	}
	z := sink.Bytes()
	content := data[:accepted]
	// header is truthful
	vAssert(len(z) >= 13 && z[0] == props.Code(), "properties byte")
	vAssert(uint32(z[1])|uint32(z[2])<<8|uint32(z[3])<<16|uint32(z[4])<<24 >= 4096, "dictionary size field covers the capacity")
	var hsize uint64
	for i := 0; i < 8; i++ {
		hsize |= uint64(z[5+i]) << (8 * uint(i))
	}
	if mode >= 1 {
		vAssert(hsize == uint64(declared), "size field states the content length")
	} else {
		vAssert(hsize == 1<<64-1, "size field says unknown")
	}
	// (a) library reader
	r, err := NewReader(bytes.NewReader(z))
	vAssert(err == nil, "own output opens")
	out, err := vReadAll(r, 7)
	vAssert(err == io.EOF && bytes.Equal(out, content), "round trip is lossless and ends cleanly")
	// (b) reference decoder
	ref, ok := VSpecLZMADecode(z)
	vAssert(ok && bytes.Equal(ref, content), "reference decoder accepts the stream and recovers the input")
}

// LZMA2 writer: call histories over {Write(p), Flush, Close}.
func VH_RT_w2() {
	variant := vConcretize(int(vNondetU8("variant")) % 4)
	// quick tier: HashTable4 with default properties and BinaryTree with lc0 lp4 pb4; thorough: all four combinations
	if !vThorough() {
		vAssume(variant == 0 || variant == 3)
		vAssume(vShards() == 1 || (variant == 3) == (vShardIdx()%2 == 1))
	} else {
		vAssume(variant%vShards() == vShardIdx()%4)
	}
	cfg := Writer2Config{DictCap: 4096, BufSize: 4096}
	if variant&1 != 0 {
		cfg.Matcher = BinaryTree
		cfg.BufSize = 273
	}
	if variant&2 != 0 {
		cfg.Properties = &Properties{LC: 0, LP: 4, PB: 4}
	}
	var sink bytes.Buffer
	w, err := cfg.NewWriter2(&sink)
	vAssert(err == nil, "valid configuration accepted")
	var written []byte
	steps := 5
	if vThorough() {
		steps = 6
	}
	closed := false
	for i := 0; i < steps; i++ {
		// 0 small write, 1 incompressible write (stored raw), 2 compressible run (stored compressed), 3 Flush, 4 Close
		op := vConcretize(int(vNondetU8("op")) % 5)
		if i == 0 {
			if vThorough() {
				vAssume(vShards() <= 4 || op == vShardIdx()/4)
			} else {
				vAssume(vShards() <= 2 || op == (vShardIdx()/2)%5)
			}
		}
		if i == 1 && !vThorough() {
			vAssume(vShards() <= 10 || op%2 == vShardIdx()/10)
		}
		before := sink.Len()
		switch op {
		case 0, 1, 2:
			var p []byte
			switch op {
			case 0:
				if vConcretize(int(vNondetU8("len"))%2) == 1 { // zero-length write or two bytes
					p = []byte{0, 'a'}
				}
			case 1:
				p = []byte{0x9c, 0x3e, 0x13, 0xa7, 0x5c, 0xe1, 0x08, 0xf4}
			case 2:
				p = []byte("abababababababababababab")
			}
			k, err := w.Write(p)
			if closed {
				vAssert(err != nil && k == 0, "Write after Close fails")
				vAssert(sink.Len() == before, "Write after Close emits nothing")
			} else {
				vAssert(err == nil && k == len(p), "Write succeeds")
				written = append(written, p...)
			}
		case 3:
			err := w.Flush()
			if closed {
				vAssert(err != nil, "Flush after Close fails")
				vAssert(sink.Len() == before, "Flush after Close emits nothing")
				break
			}
			vAssert(err == nil, "Flush succeeds")
			out, used, chunks, ok := VSpecLZMA2DecodeOpen(sink.Bytes(), 4096, true)
			vAssert(ok && used == sink.Len(), "flushed output is a legal chunk sequence for the reference decoder")
			vAssert(bytes.Equal(out, written), "flushed output decodes to everything written so far")
			for _, c := range chunks {
				vAssert(c.Compressed <= 1<<16 && c.Uncompressed <= 1<<21, "chunk size limits")
			}
			// a second Flush with nothing pending emits nothing
			b2 := sink.Len()
			vAssert(w.Flush() == nil && sink.Len() == b2, "Flush with nothing pending emits nothing")
			// the library's reader delivers the same bytes and then wants more input
			r, err := Reader2Config{DictCap: 4096}.NewReader2(bytes.NewReader(sink.Bytes()))
			vAssert(err == nil, "reader opens on flushed output")
			got, rerr := vReadAll(r, 5)
			vAssert(bytes.Equal(got, written) && rerr != nil && rerr != io.EOF, "library reader: all flushed data, then an error (no end chunk yet), never a clean end")
		case 4:
			err := w.Close()
			if closed {
				vAssert(err != nil, "second Close fails")
				vAssert(sink.Len() == before, "second Close emits nothing")
				break
			}
			vAssert(err == nil, "Close succeeds")
			closed = true
		}
	}
	if !closed {
		vAssert(w.Close() == nil, "Close succeeds")
	}
	z := sink.Bytes()
	out, used, _, ok := VSpecLZMA2Decode(z, 4096)
	vAssert(ok && used == len(z), "reference decoder accepts the complete output")
	vAssert(bytes.Equal(out, written), "reference decoder recovers all written data")
	r, err := Reader2Config{DictCap: 4096}.NewReader2(bytes.NewReader(z))
	vAssert(err == nil, "reader opens")
	got, rerr := vReadAll(r, 5)
	vAssert(rerr == io.EOF && bytes.Equal(got, written), "library round trip is lossless and ends cleanly")
}
