package lzma

import "io"

// Lemmas D0-D3 (C01, C03, C08, C11): the ring buffer, the decoder dictionary
// and the encoder dictionary refine an abstract byte sequence. Pre-states are
// arbitrary within the representation invariant of DESIGN appendix C: ring
// contents, head, distances and lengths are symbolic; ring indices are
// symbolic and case-split (front, rear range over every cell of a small
// ring).

// ---- D0: index arithmetic with a ring of arbitrary length ----------------

// An opaque ring: only len(data) is used by these functions, and it is a
// symbolic value here (a slice header over a small object).
func VH_D0_ring() {
	ln := vNondetInt("len")
	vAssume(ln >= 2 && ln < 1<<31)
	front := vNondetInt("front")
	rear := vNondetInt("rear")
	vAssume(front >= 0 && front < ln && rear >= 0 && rear < ln)
	backing := make([]byte, 2)
	b := &buffer{data: vOpaqueLen(backing, ln), front: front, rear: rear}
	vAssert(b.Cap() == ln-1, "capacity = len-1")
	bu, av := b.Buffered(), b.Available()
	vAssert(bu >= 0 && av >= 0 && bu+av == ln-1, "Buffered + Available = capacity")
	vAssert((bu == 0) == (front == rear), "empty iff front == rear")
	n := vNondetInt("n")
	vAssume(n >= 0 && n < ln)
	i := b.addIndex(front, n)
	vAssert(i >= 0 && i < ln, "addIndex stays inside the ring")
	vAssert(i == vAddMod(front, n, ln), "addIndex = (i+n) mod len")
	// Discard moves rear by min(n, Buffered)
	k, err := b.Discard(n)
	want := n
	if bu < n {
		want = bu
	}
	vAssert(k == want && (err == nil) == (n <= bu), "Discard drops min(n, Buffered)")
	vAssert(b.rear == vAddMod(rear, want, ln) && b.front == front, "rear advanced modulo len")
	vAssert(b.Buffered() == bu-want, "Buffered decreases by the discarded count")
}

// vAddMod is (a+n) mod m for 0 <= a, n < m, without a division.
func vAddMod(a, n, m int) int {
	x := a + n
	if x >= m {
		x -= m
	}
	return x
}

// ---- abstract view ---------------------------------------------------------

// vRingAt returns data[(i mod len)] for -len <= i < 2*len.
func vRingAt(data []byte, i int) byte {
	n := len(data)
	if i < 0 {
		i += n
	}
	if i >= n {
		i -= n
	}
	return data[i]
}

func vRingSizes() []int {
	if vThorough() {
		return []int{4, 5, 7}
	}
	return []int{4, 7}
}

// vSymDecDict builds a decoder dictionary in an arbitrary invariant state.
func vSymDecDict() (d *decoderDict, old []byte) {
	sizes := vRingSizes()
	capN := sizes[vConcretize(int(vNondetU8("ring"))%len(sizes))]
	d, err := newDecoderDict(capN)
	vAssert(err == nil && len(d.buf.data) == capN+1, "ring has capacity+1 cells")
	ring := vNondetBytes("cell", capN+1)
	copy(d.buf.data, ring)
	d.buf.front = vConcretize(int(vNondetU8("front")) % (capN + 1))
	vAssume(d.buf.front%vShards() == vShardIdx())
	d.buf.rear = vConcretize(int(vNondetU8("rear")) % (capN + 1))
	d.head = vNondetI64("head")
	vAssume(d.head >= 0 && d.head < 1<<62)
	old = make([]byte, capN+1)
	copy(old, ring)
	return d, old
}

func vMin(a, b int) int {
	if a < b {
		return a
	}
	return b
}

// D1: writeMatch against the abstract copy rule out[i] = out[i-dist].
func VH_D1_writeMatch() {
	d, old := vSymDecDict()
	ln := len(old)
	capN := ln - 1
	front, rear, head := d.buf.front, d.buf.rear, d.head
	dl := capN
	if head < int64(capN) {
		dl = int(head)
	}
	vAssert(d.dictLen() == dl, "dictLen = min(head, capacity)")
	avail := d.buf.Available()
	dist := vNondetI64("dist")
	length := vNondetInt("length")
	err := d.writeMatch(dist, length)
	ok := 1 <= dist && dist <= int64(dl) && 1 <= length && length <= 273 && length <= avail
	vAssert((err == nil) == ok, "match accepted iff 1<=dist<=dictLen, 1<=len<=273, len<=Available")
	if err != nil {
		vAssert(d.buf.front == front && d.buf.rear == rear && d.head == head, "rejected match leaves the dictionary untouched")
		var vd1 byte
		for i := 0; i < ln; i++ {
			vd1 |= d.buf.data[i] ^ old[i]
		}
		vAssert(vd1 == 0, "rejected match leaves the bytes untouched")
		return
	}
	n := vConcretize(length)
	vAssert(d.head == head+int64(n), "head advances by the match length")
	vAssert(d.buf.front == (front+n)%ln && d.buf.rear == rear, "front advances by the match length; rear untouched")
	// abstract copy: byte k of the match is the byte `dist` back in the output so far
	dd := int(dist)
	want := make([]byte, ln)
	copy(want, old)
	for k := 0; k < n; k++ {
		want[(front+k)%ln] = vRingAt(want, front+k-dd)
	}
	var vd2 byte
	for i := 0; i < ln; i++ {
		vd2 |= d.buf.data[i] ^ want[i]
	}
	vAssert(vd2 == 0, "ring content = abstract byte-by-byte copy (overlap and wrap included)")
	// the unread output [rear, front) was not disturbed
	vReach("match copied")
}

func VH_D1_byteAt() {
	d, old := vSymDecDict()
	ln := len(old)
	dist := vNondetInt("dist")
	b := d.byteAt(dist)
	dl := d.dictLen()
	if 0 < dist && dist <= dl {
		k := vConcretize(dist)
		vAssert(b == vRingAt(old, d.buf.front-k), "byteAt(dist) is the byte dist positions back")
	} else {
		vAssert(b == 0, "byteAt outside the dictionary is 0")
	}
	_ = ln
}

func VH_D1_writeByte() {
	d, old := vSymDecDict()
	ln := len(old)
	front, rear, head := d.buf.front, d.buf.rear, d.head
	avail := d.buf.Available()
	c := vNondetU8("c")
	err := d.WriteByte(c)
	vAssert((err == nil) == (avail >= 1), "WriteByte fails iff the ring is full")
	if err != nil {
		vAssert(err == ErrNoSpace && d.head == head && d.buf.front == front, "full ring: nothing changes")
		return
	}
	vAssert(d.head == head+1 && d.buf.front == (front+1)%ln && d.buf.rear == rear, "one byte appended")
	for i := 0; i < ln; i++ {
		if i == front {
			vAssert(d.buf.data[i] == c, "byte stored at front")
		} else {
			vAssert(d.buf.data[i] == old[i], "other cells untouched")
		}
	}
	vAssert(d.byteAt(1) == c, "the new byte is at distance 1")
}

// Write (raw chunks) then Read: bytes come out exactly once and in order.
func VH_D1_writeRead() {
	d, old := vSymDecDict()
	ln := len(old)
	front, rear, head := d.buf.front, d.buf.rear, d.head
	avail, buffered := d.buf.Available(), d.buf.Buffered()
	n := vConcretize(int(vNondetU8("n")) % (ln + 2))
	p := vNondetBytes("p", n)
	k, err := d.Write(p)
	wantK := vMin(n, avail)
	vAssert(k == wantK && (err == nil) == (n <= avail), "Write stores min(len, Available) bytes and reports ErrNoSpace otherwise")
	if err != nil {
		vAssert(err == ErrNoSpace, "ErrNoSpace")
	}
	vAssert(d.head == head+int64(wantK) && d.buf.front == (front+wantK)%ln && d.buf.rear == rear, "head/front advance by the stored count")
	var vd3 byte
	for i := 0; i < wantK; i++ {
		vd3 |= vRingAt(d.buf.data, front+i) ^ p[i]
	}
	vAssert(vd3 == 0, "stored bytes in order")
	// Read returns the unread bytes in order: first the old ones, then the new ones
	m := vConcretize(int(vNondetU8("m")) % (ln + 2))
	q := make([]byte, m)
	r, err := d.Read(q)
	wantR := vMin(m, buffered+wantK)
	vAssert(err == nil && r == wantR, "Read delivers min(len(q), Buffered)")
	for i := 0; i < wantR; i++ {
		if i < buffered {
			vAssert(q[i] == vRingAt(old, rear+i), "old unread bytes first, in order")
		} else {
			vAssert(q[i] == p[i-buffered], "then the bytes just written")
		}
	}
	vAssert(d.buf.rear == (rear+wantR)%ln && d.buf.Buffered() == buffered+wantK-wantR, "rear advances by the delivered count")
	vAssert(d.head == head+int64(wantK), "Read does not move head")
}

func VH_D1_reset() {
	d, old := vSymDecDict()
	front, rear := d.buf.front, d.buf.rear
	d.Reset()
	vAssert(d.head == 0 && d.dictLen() == 0, "after Reset no earlier byte can be referenced")
	vAssert(d.buf.front == front && d.buf.rear == rear, "Reset keeps undelivered output")
	vAssert(d.byteAt(1) == 0, "byteAt after reset is 0")
	vAssert(d.writeMatch(1, 1) != nil, "a match right after a reset is rejected")
	var vd4 byte
	for i := range old {
		vd4 |= d.buf.data[i] ^ old[i]
	}
	vAssert(vd4 == 0, "bytes untouched")
}

// ---- D2: encoder dictionary -------------------------------------------------

type vRecMatcher struct {
	got []byte
	d   *encoderDict
}

func (m *vRecMatcher) Write(p []byte) (int, error) {
	m.got = append(m.got, p...)
	return len(p), nil
}
func (m *vRecMatcher) SetDict(d *encoderDict)       { m.d = d }
func (m *vRecMatcher) NextOp(rep [4]uint32) operation { return lit{} }

// vSymEncDict: arbitrary invariant state: Buffered + DictLen <= Cap.
func vSymEncDict() (d *encoderDict, m *vRecMatcher, old []byte) {
	type cfg struct{ dc, bs int }
	cfgs := []cfg{{2, 2}, {3, 4}}
	if vThorough() {
		cfgs = []cfg{{1, 1}, {2, 2}, {3, 4}, {5, 3}}
	}
	c := cfgs[vConcretize(int(vNondetU8("cfg"))%len(cfgs))]
	m = &vRecMatcher{}
	d, err := newEncoderDict(c.dc, c.bs, m)
	vAssert(err == nil && m.d == d, "constructor wires the matcher")
	ln := len(d.buf.data)
	vAssert(ln == c.dc+c.bs+1 && d.capacity == c.dc, "ring has dictCap+bufSize+1 cells")
	ring := vNondetBytes("cell", ln)
	copy(d.buf.data, ring)
	d.buf.front = vConcretize(int(vNondetU8("front")) % ln)
	vAssume(d.buf.front%vShards() == vShardIdx())
	d.buf.rear = vConcretize(int(vNondetU8("rear")) % ln)
	d.head = vNondetI64("head")
	vAssume(d.head >= 0 && d.head < 1<<62)
	vAssume(int64(d.buf.Buffered())+int64(vMin64(d.head, int64(d.capacity))) <= int64(d.buf.Cap()))
	old = make([]byte, ln)
	copy(old, ring)
	return d, m, old
}

func vMin64(a, b int64) int64 {
	if a < b {
		return a
	}
	return b
}

func VH_D2_views() {
	d, _, old := vSymEncDict()
	ln := len(old)
	head := d.head
	dictLen := int(vMin64(head, int64(d.capacity)))
	vAssert(d.DictLen() == dictLen, "DictLen = min(head, capacity)")
	l := d.Len()
	vAssert(l == int(vMin64(head, int64(d.buf.Available()))), "Len = min(head, free ring cells)")
	vAssert(l >= dictLen, "everything inside the declared dictionary is still resident")
	vAssert(d.Available() == d.buf.Cap()-d.buf.Buffered()-dictLen && d.Available() >= 0, "Available = Cap - Buffered - DictLen >= 0")
	dist := vNondetInt("dist")
	b := d.ByteAt(dist)
	if 0 < dist && dist <= l {
		vAssert(b == vRingAt(old, d.buf.rear-vConcretize(dist)), "ByteAt(dist) is dist positions behind the look-ahead")
	} else {
		vAssert(b == 0, "ByteAt outside the resident history is 0")
	}
	_ = ln
}

func VH_D2_write() {
	d, _, old := vSymEncDict()
	ln := len(old)
	front, rear, head := d.buf.front, d.buf.rear, d.head
	avail := d.Available()
	n := vConcretize(int(vNondetU8("n")) % (ln + 1))
	p := vNondetBytes("p", n)
	k, err := d.Write(p)
	want := vMin(n, avail)
	vAssert(k == want && (err == nil) == (n <= avail), "Write accepts min(len, Available); ErrNoSpace otherwise")
	vAssert(d.head == head && d.buf.rear == rear && d.buf.front == (front+want)%ln, "only front moves")
	var vd5 byte
	for i := 0; i < want; i++ {
		vd5 |= vRingAt(d.buf.data, front+i) ^ p[i]
	}
	vAssert(vd5 == 0, "look-ahead extended in order")
	// history inside the declared dictionary is not overwritten
	dl := d.DictLen()
	var vd6 byte
	for j := 1; j <= dl; j++ {
		vd6 |= vRingAt(d.buf.data, rear-j) ^ vRingAt(old, rear-j)
	}
	vAssert(vd6 == 0, "bytes within DictLen survive a Write")
	vAssert(int64(d.buf.Buffered())+int64(dl) <= int64(d.buf.Cap()), "invariant Buffered + DictLen <= Cap preserved")
}

func VH_D2_discard() {
	d, m, old := vSymEncDict()
	ln := len(old)
	front, rear, head := d.buf.front, d.buf.rear, d.head
	buffered := d.buf.Buffered()
	n := vConcretize(int(vNondetU8("n")) % (ln + 1))
	vAssume(n <= buffered) // callers discard op.Len() <= Buffered (OP5); more is a documented panic
	d.Discard(n)
	vAssert(d.head == head+int64(n) && d.buf.rear == (rear+n)%ln && d.buf.front == front, "rear and head advance by n")
	vAssert(len(m.got) == n, "matcher sees exactly the discarded bytes")
	for i := 0; i < n; i++ {
		vAssert(m.got[i] == vRingAt(old, rear+i), "matcher sees them in order")
		vAssert(d.ByteAt(n-i) == vRingAt(old, rear+i), "discarded bytes become history at distances n..1")
	}
	dl := d.DictLen()
	vAssert(int64(d.buf.Buffered())+int64(dl) <= int64(d.buf.Cap()), "invariant Buffered + DictLen <= Cap preserved")
	var vd7 byte
	for i := range old {
		vd7 |= d.buf.data[i] ^ old[i]
	}
	vAssert(vd7 == 0, "Discard does not change bytes")
}

// vPartSink accepts everything and records it; with failAt >= 0 call number
// failAt fails after accepting `part` bytes.
type vPartSink struct {
	buf    []byte
	calls  int
	failAt int
	part   int
}

func (s *vPartSink) Write(p []byte) (int, error) {
	k := s.calls
	s.calls++
	if k == s.failAt {
		n := vMin(s.part, len(p))
		s.buf = append(s.buf, p[:n]...)
		return n, vErrSink
	}
	s.buf = append(s.buf, p...)
	return len(p), nil
}

func VH_D2_copyN() {
	d, _, old := vSymEncDict()
	ln := len(old)
	rear := d.buf.rear
	l := d.Len()
	n := vConcretize(int(vNondetU8("n")) % (ln + 2))
	failAt := vConcretize(int(vNondetU8("failAt"))%3) - 1
	sink := &vPartSink{failAt: failAt, part: vConcretize(int(vNondetU8("part")) % 2)}
	k, err := d.CopyN(sink, n)
	want := vMin(n, l)
	failed := failAt >= 0 && failAt < sink.calls
	if !failed {
		vAssert(k == want && len(sink.buf) == want, "CopyN writes min(n, Len) bytes")
		vAssert((err == nil) == (n <= l), "CopyN reports ErrNoSpace iff fewer than n bytes are resident")
		var vd8 byte
		for i := 0; i < want; i++ {
			vd8 |= sink.buf[i] ^ vRingAt(old, rear-want+i)
		}
		vAssert(vd8 == 0, "exactly the last n bytes before the look-ahead, in order")
	} else {
		vAssert(err == vErrSink, "a failing sink's error is returned")
		vAssert(k == len(sink.buf), "count = bytes the sink accepted")
	}
	vAssert(d.buf.rear == rear && d.head >= 0, "CopyN does not modify the dictionary")
	var _ io.Writer = sink
}

// D3: encoder and decoder dictionaries agree on the byte at every distance
// once they hold the same sequence: feed the same symbolic bytes to both.
func VH_D3_agree() {
	m := &vRecMatcher{}
	e, _ := newEncoderDict(3, 3, m)
	dcap := 3 + vConcretize(int(vNondetU8("extra"))%2)
	d, _ := newDecoderDict(dcap)
	n := vConcretize(1 + int(vNondetU8("n"))%8)
	seq := vNondetBytes("b", n)
	buf := make([]byte, 8)
	for i := 0; i < n; i++ {
		k, err := e.Write(seq[i : i+1])
		vAssert(k == 1 && err == nil, "room for one look-ahead byte")
		e.Discard(1)
		vAssert(d.WriteByte(seq[i]) == nil, "decoder ring has room")
		d.Read(buf[:1])
	}
	vAssert(e.Pos() == int64(n) && d.pos() == int64(n), "positions agree")
	for j := 1; j <= 5; j++ {
		if j <= e.DictLen() {
			vAssert(e.ByteAt(j) == seq[n-j] && d.byteAt(j) == seq[n-j], "both dictionaries return the byte j positions back")
		}
		if j > n {
			vAssert(e.ByteAt(j) == 0 && d.byteAt(j) == 0, "beyond the start both return 0")
		}
	}
	vAssert(e.DictLen() <= d.dictLen(), "every distance the encoder may use is valid for a decoder of at least the same capacity")
}
