package lzma

import "io"

// Lemmas L1, L3 (C06, C07, C05): the 13-byte classic header against the
// format (properties byte, 32-bit dictionary size, 64-bit size with all-ones
// = unknown), for all field values; and the reader's window rule.

func VH_L1_marshal() {
	var h header
	h.properties = Properties{LC: int(vNondetU8("lc")), LP: int(vNondetU8("lp")), PB: int(vNondetU8("pb"))}
	h.dictCap = vNondetInt("dictCap")
	h.size = vNondetI64("size")
	vAssume(h.size >= -1)
	data, err := h.marshalBinary()
	propsOK := h.properties.LC <= 8 && h.properties.LP <= 4 && h.properties.PB <= 4
	capOK := h.dictCap >= 0 && int64(h.dictCap) <= 1<<32-1
	vAssert((err == nil) == (propsOK && capOK), "marshal accepts exactly lc<=8, lp<=4, pb<=4, 0 <= dictCap < 2^32")
	if err != nil {
		return
	}
	vAssert(len(data) == 13, "13 bytes")
	vAssert(int(data[0]) == (h.properties.PB*5+h.properties.LP)*9+h.properties.LC, "properties byte = (pb*5+lp)*9+lc")
	vAssert(uint32(data[1])|uint32(data[2])<<8|uint32(data[3])<<16|uint32(data[4])<<24 == uint32(h.dictCap), "dictionary size, 32 bit little endian")
	var s uint64
	for i := 0; i < 8; i++ {
		s |= uint64(data[5+i]) << (8 * uint(i))
	}
	if h.size >= 0 {
		vAssert(s == uint64(h.size), "a known size (zero included) is stored as is")
	} else {
		vAssert(s == 1<<64-1, "unknown size is all ones")
	}
	var g header
	vAssert(g.unmarshalBinary(data) == nil && g == h, "library round trip")
}

func VH_L1_unmarshal() {
	data := vNondetBytes("d", 13)
	var h header
	err := h.unmarshalBinary(data)
	var s uint64
	for i := 0; i < 8; i++ {
		s |= uint64(data[5+i]) << (8 * uint(i))
	}
	valid := data[0] < 225 && (s == 1<<64-1 || s < 1<<63)
	vAssert((err == nil) == valid, "header accepted iff properties byte < 225 and size unknown or below 2^63")
	if err != nil {
		return
	}
	d := int(data[0])
	vAssert(h.properties.LC == d%9 && h.properties.LP == (d/9)%5 && h.properties.PB == d/45, "lc/lp/pb from the properties byte")
	vAssert(uint32(h.dictCap) == uint32(data[1])|uint32(data[2])<<8|uint32(data[3])<<16|uint32(data[4])<<24 && h.dictCap >= 0, "dictionary size")
	if s == 1<<64-1 {
		vAssert(h.size == -1, "all ones = unknown")
	} else {
		vAssert(h.size == int64(s), "size")
	}
}

// L3: NewReader: window = max(header, 4096, config); size and properties forwarded;
// a source ending inside header or coder preamble gives an error that is not io.EOF.
func VH_L3_newReader() {
	data := vNondetBytes("d", 18)
	// keep the tables small: lc+lp <= 4 (classic LZMA allows up to 12; the table size is the only difference)
	pb := int(data[0])
	vAssume(pb >= 225 || pb%9+(pb/9)%5 <= 4)
	// the dictionary size field is one of a few values around the rule's boundaries
	// (it only determines an allocation size, which must be concrete)
	hci := vConcretize(int(vNondetU8("hdrDict")) % 7)
	vAssume(hci%vShards() == vShardIdx())
	hc := []uint32{0, 4095, 4096, 4097, 1 << 16, 1<<20 + 1, 3 << 20}[hci]
	data[1], data[2], data[3], data[4] = byte(hc), byte(hc>>8), byte(hc>>16), byte(hc>>24)
	avail := vConcretize(int(vNondetU8("avail")) % 19)
	fails := vNondetBool("srcFails")
	src := &vSrc{data: data, end: avail, frag: vConcretize(int(vNondetU8("frag")) % 2)}
	if fails {
		src.failErr = vErrSrc
	}
	cfgCap := []int{0, 4096, 1 << 20}[vConcretize(int(vNondetU8("cfg"))%3)]
	r, err := ReaderConfig{DictCap: cfgCap}.NewReader(src)
	var s uint64
	for i := 0; i < 8; i++ {
		s |= uint64(data[5+i]) << (8 * uint(i))
	}
	if avail < 18 {
		vAssert(err != nil && err != io.EOF, "a stream ending (or failing) inside header or coder preamble is an error other than io.EOF")
		if fails && avail >= 13 && data[0] < 225 && (s == 1<<64-1 || s < 1<<63) && !(avail > 13 && data[13] != 0) {
			vAssert(err == vErrSrc, "source error returned")
		}
		return
	}
	code := uint32(data[14])<<24 | uint32(data[15])<<16 | uint32(data[16])<<8 | uint32(data[17])
	valid := data[0] < 225 && (s == 1<<64-1 || s < 1<<63) && data[13] == 0 && code != 0xffffffff
	vAssert((err == nil) == valid, "reader opens iff header and coder preamble are well-formed")
	if err != nil {
		return
	}
	hdrCap := int(uint32(data[1]) | uint32(data[2])<<8 | uint32(data[3])<<16 | uint32(data[4])<<24)
	want := hdrCap
	if want < 4096 {
		want = 4096
	}
	eff := cfgCap
	if eff == 0 {
		eff = 8 << 20
	}
	if eff > want {
		want = eff
	}
	vAssert(r.d.Dict.buf.Cap() == want, "window = max(header dictionary size, 4096, configured capacity)")
	d := int(data[0])
	vAssert(r.d.State.Properties == Properties{LC: d % 9, LP: (d / 9) % 5, PB: d / 45}, "properties forwarded to the coder state")
	if s == 1<<64-1 {
		vAssert(r.d.size == -1, "unknown size forwarded")
	} else {
		vAssert(r.d.size == int64(s), "declared size forwarded")
	}
	vAssert(r.d.rd.code == code && r.d.rd.nrange == 0xffffffff, "range decoder primed from the preamble")
}
