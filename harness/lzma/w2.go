package lzma

import (
	"bytes"
	"io"
)

// Lemma W2.2 (C08, C16, C01, C02, C17): Writer2.writeChunk from an arbitrary
// writer state: the bytes handed to the sink are exactly one well-formed
// chunk of a kind that is legal in the current chunk state, with truthful
// size fields. All sizes are symbolic - the compressed buffer and the
// dictionary ring are slices of arbitrary length (only their lengths are
// observed), and the configuration (DictCap, BufSize) ranges over everything
// Writer2Config.Verify accepts.

// vCountSink records short writes (headers) verbatim and only counts long ones.
type vCountSink struct {
	hdr    []byte
	total  int64
	calls  int
	failAt int
}

func (s *vCountSink) Write(p []byte) (int, error) {
	k := s.calls
	s.calls++
	if k == s.failAt {
		return 0, vErrSink
	}
	if k == 0 && len(p) <= 6 {
		s.hdr = append(s.hdr, p...)
	}
	s.total += int64(len(p))
	return len(p), nil
}

func VH_W22_writeChunk() {
	// configuration: anything Verify accepts
	dictCap := vNondetInt("dictCap")
	bufSize := vNondetInt("bufSize")
	vAssume(dictCap >= MinDictCap && int64(dictCap) <= MaxDictCap)
	vAssume(bufSize >= maxMatchLen && bufSize <= 1<<32)
	// encoder dictionary: arbitrary invariant state over an opaque ring
	ringLen := dictCap + bufSize + 1
	backing := make([]byte, 2)
	d := &encoderDict{capacity: dictCap}
	d.buf.data = vOpaqueLen(backing, ringLen)
	d.buf.front, d.buf.rear = vNondetInt("front"), vNondetInt("rear")
	vAssume(d.buf.front >= 0 && d.buf.front < ringLen && d.buf.rear >= 0 && d.buf.rear < ringLen)
	d.head = vNondetI64("head")
	vAssume(d.head >= 0 && d.head < 1<<50)
	vAssume(d.buf.Buffered() <= bufSize) // the look-ahead never exceeds BufSize (encoderDict.Write / Available)
	vAssume(int64(d.buf.Buffered())+vMin64(d.head, int64(dictCap)) <= int64(d.buf.Cap()))
	// chunk so far: u uncompressed bytes coded into c compressed bytes
	start := vNondetI64("start")
	vAssume(start >= 0 && start < d.head)
	u := d.head - start
	vAssume(u <= maxUncompressed)
	c := vNondetInt("c")
	vAssume(c >= 5 && c <= maxCompressed)
	cs := chunkState(vNondetU8("cstate"))
	_, _, valid, stopped := specFlags(cs)
	vAssume(valid && !stopped)
	props := Properties{LC: 3, LP: 0, PB: 2}
	live, snap := newState(props), newState(props)
	sink := &vCountSink{failAt: -1}
	if vNondetBool("sinkFails") {
		sink.failAt = vConcretize(int(vNondetU8("failAt")) % 3)
	}
	w := &Writer2{w: sink, start: snap, cstate: cs, ctype: cs.defaultChunkType()}
	w.buf = *bytes.NewBuffer(vOpaqueLen(make([]byte, 2), c))
	w.encoder = &encoder{dict: d, state: live, start: start, margin: opLenMargin}
	ctype0 := w.ctype
	rawCheaper := u+3 < int64(headerLen(ctype0)+c)
	// opLenMargin assumption (outside the claim, DESIGN §5 C01): whenever the raw
	// form is cheaper, the chunk holds at most 64 KiB of input.
	vAssume(!rawCheaper || u <= 1<<16)
	err := w.writeChunk()
	if sink.failAt >= 0 && sink.failAt < sink.calls {
		vAssert(err == vErrSink, "a failing sink's error is returned")
		return
	}
	vAssert(err == nil, "chunk written without error")
	nd, np, _, _ := specFlags(cs)
	k := specChunkKind(sink.hdr[0])
	vAssert(k >= 1, "a data chunk header")
	_, _, legal, _ := specStep(nd, np, k)
	vAssert(legal, "the emitted chunk kind is legal in the current chunk state")
	if k <= 2 {
		// raw chunk
		vAssert(len(sink.hdr) == 3, "raw chunk header has three bytes")
		vAssert(int64(sink.hdr[1])<<8|int64(sink.hdr[2]) == u-1, "raw chunk size field = bytes in the chunk - 1")
		vAssert(sink.total == 3+u, "payload is exactly the chunk's input bytes")
		vAssert((k == 1) == nd, "dictionary reset flag iff a reset is pending")
		vAssert(w.encoder.state == snap, "coder state returns to the chunk-start snapshot")
		vAssert(sink.total <= u+3, "a chunk never costs more than its input + 3 bytes")
	} else {
		hl := 5
		if k >= 5 {
			hl = 6
		}
		vAssert(len(sink.hdr) == hl, "LZMA chunk header length")
		uu := int64(sink.hdr[0]&0x1f)<<16 | int64(sink.hdr[1])<<8 | int64(sink.hdr[2])
		vAssert(uu == u-1, "uncompressed size field")
		vAssert(int(sink.hdr[3])<<8|int(sink.hdr[4]) == c-1, "compressed size field")
		if k >= 5 {
			vAssert(sink.hdr[5] == props.Code(), "properties byte")
		}
		vAssert(sink.total == int64(hl+c), "payload is exactly the compressed buffer")
		vAssert(w.encoder.state == live, "coder state continues")
		// C17: with a dictionary of at least 64 KiB the raw form is always available
		// (the chunk's input is still resident), so a chunk never costs more than u+3
		vAssert(int64(hl+c) <= u+3 || dictCap < 1<<16, "with DictCap >= 64 KiB a chunk never costs more than its input + 3 bytes")
	}
	var _ io.Writer = sink
}

// ---- OP5 (C01, C06, C08): encoder.Write terminates --------------------------
//
// encoder.Write loops: dict.Write; on ErrNoSpace compress(0); again. It
// terminates only if compress(0) always frees look-ahead space when the
// dictionary refused data. One pass of that loop from an arbitrary invariant
// state, for configurations at the boundaries of what Verify accepts (DictCap
// 4096/4097/65536, BufSize 273/274/275): after compress(0) the dictionary accepts at least
// one more byte. The matcher is a model returning operations of arbitrary
// legal length; coding the operation (writeOp) is cut away.

type vAnyMatcher struct{ d *encoderDict }

func (m *vAnyMatcher) Write(p []byte) (int, error) { return len(p), nil }
func (m *vAnyMatcher) SetDict(d *encoderDict)       { m.d = d }
func (m *vAnyMatcher) NextOp(rep [4]uint32) operation {
	n := int(vNondetU16("oplen"))
	vAssume(n >= 1 && n <= maxMatchLen && n <= m.d.Buffered())
	if n == 1 && vNondetBool("lit") {
		return lit{}
	}
	return match{distance: 1, n: n}
}

func vDiscardModel(d *encoderDict, n int) {
	vAssert(n >= 1 && n <= d.buf.Buffered(), "an operation never covers more than the look-ahead holds")
	d.buf.rear = d.buf.addIndex(d.buf.rear, n)
	d.head += int64(n)
}

func VH_OP5_progress() {
	vSubst("(*encoder).writeOp", func(e *encoder, op operation) error { return nil })
	vSubst("(*encoderDict).Discard", vDiscardModel)
	vUnwind(8)
	// configurations at the boundaries of what Verify accepts (symbolic sizes make the
	// modular ring arithmetic too hard for the solvers: 60 s per query)
	ci := vConcretize(int(vNondetU8("config")) % 9)
	vAssume(ci%vShards() == vShardIdx())
	dictCap := []int{MinDictCap, MinDictCap + 1, 1 << 16}[ci%3]
	bufSize := []int{maxMatchLen, maxMatchLen + 1, maxMatchLen + 2}[ci/3] // larger look-aheads need more than the three bounded loop turns
	ringLen := dictCap + bufSize + 1
	m := &vAnyMatcher{}
	d := &encoderDict{capacity: dictCap, m: m}
	m.d = d
	d.buf.data = vOpaqueLen(make([]byte, 2), ringLen)
	d.buf.front, d.buf.rear = vNondetInt("front"), vNondetInt("rear")
	vAssume(d.buf.front >= 0 && d.buf.front < ringLen && d.buf.rear >= 0 && d.buf.rear < ringLen)
	d.head = vNondetI64("head")
	vAssume(d.head >= 0 && d.head < 1<<50)
	vAssume(int64(d.buf.Buffered())+vMin64(d.head, int64(dictCap)) <= int64(d.buf.Cap()))
	// the situation in which encoder.Write calls compress(0): the dictionary is full
	vAssume(d.Available() == 0)
	// bound: at most three operations are needed to get below the reserve
	vAssume(d.Buffered() <= maxMatchLen-1+3)
	e := &encoder{dict: d, state: &state{}, margin: opLenMargin}
	vAssert(e.compress(0) == nil, "compress(0) succeeds")
	vAssert(d.Available() >= 1, "after compress(0) the dictionary accepts at least one more byte (encoder.Write makes progress)")
	vAssert(int64(d.buf.Buffered())+vMin64(d.head, int64(dictCap)) <= int64(d.buf.Cap()), "dictionary invariant preserved")
}
