package lzma

import (
	"io"
	"unsafe"
)

// Lemmas TC1-TC4, OP2, OP3 (C01, C02, C03, C06, C07): the bit-level codecs
// and the operation layer over the IDEAL BIT CHANNEL. The range coder is cut
// away (its arithmetic is lemmas RC1-RC3): EncodeBit/DirectEncodeBit append
// (probability cell, bit) to a log, DecodeBit/DirectDecodeBit pop it and
// assert that the decoder addresses the same cell. Values are symbolic over
// their complete domains (all 2^32 distances, all lengths, all bytes, all
// contexts). Every codec is compared with the specification's labelled
// decoder: the sequence of (table, index) pairs the format prescribes must
// be exactly the cells the library touches, which exposes deviations that
// are symmetric between the library's encoder and decoder.

// vPtrKey identifies a probability cell (natively: its address).
func vPtrKey(p *prob) uint64 { return uint64(uintptr(unsafe.Pointer(p))) }

type vBit struct {
	key    uint64
	bit    uint32
	direct bool
	// value-level entries (operation-layer lemmas): a whole codec call
	codec uint8  // 0 = a single bit; 'L' length, 'D' distance, 'B' literal byte
	ctx   uint64 // the codec call's context arguments
}

var (
	vChan    []vBit
	vChanPos int
	// accumulated disagreement between the cell a reader addresses and the cell
	// the writer used (XOR of the two cell identities, OR-ed over all bits): one
	// solver query per codec call instead of one per bit
	vCellDiff uint64
	vKindDiff bool
)

func vChanReset() { vChan, vChanPos, vCellDiff, vKindDiff, vValueLevel = nil, 0, 0, false, false }

// vCellsAgree is asserted after a reader has consumed the log.
func vCellsAgree(label string) {
	vAssert(!vKindDiff, "modelled and direct bits are read in the order they were written")
	vAssert(vCellDiff == 0, label)
	vCellDiff = 0
}

func vEncBit(e *rangeEncoder, b uint32, p *prob) error {
	vChan = append(vChan, vBit{key: vPtrKey(p), bit: b & 1})
	return nil
}

func vEncDirect(e *rangeEncoder, b uint32) error {
	vChan = append(vChan, vBit{bit: b & 1, direct: true})
	return nil
}

func vDecBit(d *rangeDecoder, p *prob) (uint32, error) {
	vAssert(vChanPos < len(vChan), "decoder does not read past what the encoder wrote")
	x := vChan[vChanPos]
	vChanPos++
	vCellDiff |= x.key ^ vPtrKey(p)
	if x.direct {
		vKindDiff = true
	}
	return x.bit, nil
}

func vDecDirect(d *rangeDecoder) (uint32, error) {
	vAssert(vChanPos < len(vChan), "decoder does not read past what the encoder wrote")
	x := vChan[vChanPos]
	vChanPos++
	if !x.direct {
		vKindDiff = true
	}
	return x.bit, nil
}

func vIdealChannel() {
	vChanReset()
	vSubst("(*rangeEncoder).EncodeBit", vEncBit)
	vSubst("(*rangeEncoder).DirectEncodeBit", vEncDirect)
	vSubst("(*rangeDecoder).DecodeBit", vDecBit)
	vSubst("(*rangeDecoder).DirectDecodeBit", vDecDirect)
}

// Value-level cut for the operation layer (justified by TC2-TC4): a call of
// the length, distance or literal codec is one log entry (codec instance,
// context arguments, value). What the operation layer must get right is which
// codec instance it calls with which context.
func vValPut(codec uint8, key, ctx uint64, val uint32) {
	vChan = append(vChan, vBit{key: key, bit: val, codec: codec, ctx: ctx})
}

func vValTake(codec uint8, key, ctx uint64) uint32 {
	vAssert(vChanPos < len(vChan), "reader does not read past what was written")
	x := vChan[vChanPos]
	vChanPos++
	vCellDiff |= (x.key ^ key) | (x.ctx ^ ctx)
	if x.codec != codec {
		vKindDiff = true
	}
	return x.bit
}

func vLenEnc(lc *lengthCodec, e *rangeEncoder, l uint32, posState uint32) error {
	vAssert(l <= 271, "length codes passed to the length codec are 0..271")
	vValPut('L', vPtrKey(&lc.choice[0]), uint64(posState), l)
	return nil
}
func vLenDec(lc *lengthCodec, d *rangeDecoder, posState uint32) (uint32, error) {
	return vValTake('L', vPtrKey(&lc.choice[0]), uint64(posState)), nil
}
func vDistEnc(dc *distCodec, e *rangeEncoder, dist uint32, l uint32) error {
	ls := l
	if ls > 3 {
		ls = 3
	}
	vValPut('D', 0, uint64(ls), dist)
	return nil
}
func vDistDec(dc *distCodec, d *rangeDecoder, l uint32) (uint32, error) {
	ls := l
	if ls > 3 {
		ls = 3
	}
	return vValTake('D', 0, uint64(ls)), nil
}
func vLitCtx(state uint32, match byte, litState uint32) uint64 {
	m := uint64(0)
	st := uint64(0)
	if state >= 7 { // the match byte matters only in states >= 7
		m = uint64(match)
		st = 1
	}
	return st<<40 | m<<32 | uint64(litState)
}
func vLitEnc(c *literalCodec, e *rangeEncoder, s byte, state uint32, match byte, litState uint32) error {
	vAssert(int(litState+1)*0x300 <= len(c.probs), "literal context lies inside the literal table")
	vValPut('B', 0, vLitCtx(state, match, litState), uint32(s))
	return nil
}
func vLitDec(c *literalCodec, d *rangeDecoder, state uint32, match byte, litState uint32) (byte, error) {
	vAssert(int(litState+1)*0x300 <= len(c.probs), "literal context lies inside the literal table")
	return byte(vValTake('B', 0, vLitCtx(state, match, litState))), nil
}

func vValueChannel() {
	vIdealChannel()
	vSubst("(*lengthCodec).Encode", vLenEnc)
	vSubst("(*lengthCodec).Decode", vLenDec)
	vSubst("(*distCodec).Encode", vDistEnc)
	vSubst("(*distCodec).Decode", vDistDec)
	vSubst("(*literalCodec).Encode", vLitEnc)
	vSubst("(*literalCodec).Decode", vLitDec)
}

var vValueLevel bool

// ---- the specification's labelled decoder, reading the channel log ----------

// vTake pops a modelled bit that the format says is coded with cell p.
func vTake(p *prob) uint32 {
	vAssert(vChanPos < len(vChan), "specification reads no more bits than were written")
	x := vChan[vChanPos]
	vChanPos++
	vCellDiff |= x.key ^ vPtrKey(p)
	if x.direct {
		vKindDiff = true
	}
	return x.bit
}

func vTakeDirect() uint32 {
	vAssert(vChanPos < len(vChan), "specification reads no more bits than were written")
	x := vChan[vChanPos]
	vChanPos++
	if !x.direct {
		vKindDiff = true
	}
	return x.bit
}

// BitTreeDecode(probs, n): m=1; repeat n: m = m<<1 + bit(probs[m]); value m - 2^n
func specTree(probs []prob, n int) uint32 {
	m := uint32(1)
	for i := 0; i < n; i++ {
		m = m<<1 | vTake(&probs[m])
	}
	return m - 1<<uint(n)
}

// BitTreeReverseDecode
func specRevTree(probs []prob, n int) uint32 {
	m := uint32(1)
	var sym uint32
	for i := 0; i < n; i++ {
		b := vTake(&probs[m])
		m = m<<1 | b
		sym |= b << uint(i)
	}
	return sym
}

func specLen(lc *lengthCodec, posState uint32) uint32 {
	if vValueLevel {
		return vValTake('L', vPtrKey(&lc.choice[0]), uint64(posState))
	}
	if vTake(&lc.choice[0]) == 0 {
		return specTree(lc.low[posState].probs, 3)
	}
	if vTake(&lc.choice[1]) == 0 {
		return 8 + specTree(lc.mid[posState].probs, 3)
	}
	return 16 + specTree(lc.high.probs, 8)
}

func specDist(dc *distCodec, lenCode uint32) uint32 {
	ls := lenCode
	if ls > 3 {
		ls = 3
	}
	if vValueLevel {
		return vValTake('D', 0, uint64(ls))
	}
	slot := specTree(dc.posSlotCodecs[ls].probs, 6)
	if slot < 4 {
		return slot
	}
	nDirect := int(slot>>1) - 1
	dist := (2 | slot&1) << uint(nDirect)
	if slot < 14 {
		// the format's PosDecoders + dist - posSlot is one reverse tree of nDirect bits per slot
		return dist + specRevTree(dc.posModel[slot-4].probs, nDirect)
	}
	var d uint32
	for i := 0; i < nDirect-4; i++ {
		d = d<<1 | vTakeDirect()
	}
	dist += d << 4
	return dist + specRevTree(dc.alignCodec.probs, 4)
}

func specLit(c *literalCodec, state uint32, matchByte byte, litState uint32) byte {
	if vValueLevel {
		return byte(vValTake('B', 0, vLitCtx(state, matchByte, litState)))
	}
	probs := c.probs[0x300*litState : 0x300*litState+0x300]
	symbol := uint32(1)
	if state >= 7 {
		mb := uint32(matchByte)
		for symbol < 0x100 {
			matchBit := (mb >> 7) & 1
			mb <<= 1
			b := vTake(&probs[(1+matchBit)<<8+symbol])
			symbol = symbol<<1 | b
			if matchBit != b {
				break
			}
		}
	}
	for symbol < 0x100 {
		symbol = symbol<<1 | vTake(&probs[symbol])
	}
	return byte(symbol)
}

// ---- TC1: trees and direct bits ------------------------------------------------

func VH_TC1_trees() {
	vIdealChannel()
	vUnwind(40)
	bits := []int{1, 2, 3, 4, 5, 6, 8}[vConcretize(int(vNondetU8("bits"))%7)]
	v := vNondetU32("v")
	vAssume(v < 1<<uint(bits))
	rev := vNondetBool("reverse")
	e, d := &rangeEncoder{}, &rangeDecoder{}
	if !rev {
		tc := makeTreeCodec(bits)
		vAssert(tc.Encode(e, v) == nil, "encode")
		vAssert(len(vChan) == bits, "a tree value costs exactly `bits` modelled bits")
		got, err := tc.Decode(d)
		vAssert(err == nil && got == v && vChanPos == len(vChan), "tree decode(encode(v)) = v, all bits consumed")
		vCellsAgree("decoder addresses the cells the encoder used")
		vChanPos = 0
		vAssert(specTree(tc.probs, bits) == v && vChanPos == len(vChan), "specification's bit-tree reads the same value")
		vCellsAgree("every bit is coded with the cell the specification prescribes")
	} else {
		tc := makeTreeReverseCodec(bits)
		vAssert(tc.Encode(v, e) == nil, "encode")
		vAssert(len(vChan) == bits, "a reverse tree value costs exactly `bits` modelled bits")
		got, err := tc.Decode(d)
		vAssert(err == nil && got == v && vChanPos == len(vChan), "reverse tree decode(encode(v)) = v")
		vCellsAgree("decoder addresses the cells the encoder used")
		vChanPos = 0
		vAssert(specRevTree(tc.probs, bits) == v && vChanPos == len(vChan), "specification's reverse bit-tree reads the same value")
		vCellsAgree("every bit is coded with the cell the specification prescribes")
	}
}

func VH_TC1_direct() {
	vIdealChannel()
	vUnwind(40)
	bits := 1 + vConcretize(int(vNondetU8("bits"))%26)
	v := vNondetU32("v")
	vAssume(v < 1<<uint(bits))
	dc := directCodec(bits)
	vAssert(dc.Encode(&rangeEncoder{}, v) == nil && len(vChan) == bits, "direct value costs exactly `bits` direct bits")
	got, err := dc.Decode(&rangeDecoder{})
	vAssert(err == nil && got == v, "direct decode(encode(v)) = v")
	vCellsAgree("direct bits only")
	vChanPos = 0
	var s uint32
	for i := 0; i < bits; i++ {
		s = s<<1 | vTakeDirect()
	}
	vAssert(s == v, "most significant bit first, as the specification's DecodeDirectBits")
	vCellsAgree("direct bits only")
}

// ---- TC2: length codec, all lengths, all position states ------------------------

func VH_TC2_len() {
	vIdealChannel()
	vUnwind(40)
	var lc lengthCodec
	lc.init()
	l := vNondetU32("l")
	posState := vNondetU32("posState")
	vAssume(posState < 16)
	err := lc.Encode(&rangeEncoder{}, l, posState)
	vAssert((err == nil) == (l <= 271), "lengths 2..273 (codes 0..271) are accepted, nothing else")
	if err != nil {
		vAssert(len(vChan) == 0, "a rejected length emits nothing")
		return
	}
	got, err := lc.Decode(&rangeDecoder{}, posState)
	vAssert(err == nil && got == l && vChanPos == len(vChan), "length decode(encode(l)) = l")
	vCellsAgree("decoder addresses the cells the encoder used")
	vChanPos = 0
	vAssert(specLen(&lc, posState) == l && vChanPos == len(vChan), "specification's length decoder reads l")
	vCellsAgree("length bits are coded with choice, choice2, low/mid[posState], high as the specification prescribes")
	vAssert(len(vChan) <= 10, "a length costs at most 10 modelled bits")
}

// ---- TC3: distance codec, all 2^32 distances --------------------------------------

func VH_TC3_dist() {
	vIdealChannel()
	vUnwind(40)
	var dc distCodec
	dc.init()
	dist := vNondetU32("dist")
	l := vNondetU32("l")
	vAssume(l <= 271)
	vAssert(dc.Encode(&rangeEncoder{}, dist, l) == nil, "every 32-bit distance (incl. the end marker 0xffffffff) is encodable")
	got, err := dc.Decode(&rangeDecoder{}, l)
	vAssert(err == nil && got == dist && vChanPos == len(vChan), "distance decode(encode(d)) = d")
	vCellsAgree("decoder addresses the cells the encoder used")
	vChanPos = 0
	vAssert(specDist(&dc, l) == dist && vChanPos == len(vChan), "specification's distance decoder reads d")
	vCellsAgree("distance bits are coded with PosSlot[min(len,3)], SpecPos[slot], direct bits, Align as the specification prescribes")
	vAssert(len(vChan) <= 36, "a distance costs at most 6 + 26 + 4 modelled bits")
}

// ---- TC4: literal codec, all bytes, match bytes, states and contexts ------------------

func VH_TC4_lit() {
	vIdealChannel()
	vUnwind(40)
	lclp := vConcretize(int(vNondetU8("lc+lp")) % 3)
	var c literalCodec
	c.init(lclp, 0)
	s, match := vNondetU8("s"), vNondetU8("match")
	state := vNondetU32("state")
	vAssume(state < 12)
	litState := vNondetU32("litState")
	vAssume(litState < 1<<uint(lclp))
	vAssert(c.Encode(&rangeEncoder{}, s, state, match, litState) == nil, "encode")
	vAssert(len(vChan) == 8, "a literal costs exactly 8 modelled bits")
	got, err := c.Decode(&rangeDecoder{}, state, match, litState)
	vAssert(err == nil && got == s && vChanPos == len(vChan), "literal decode(encode(s)) = s")
	vCellsAgree("decoder addresses the cells the encoder used")
	vChanPos = 0
	vAssert(specLit(&c, state, match, litState) == s && vChanPos == len(vChan), "specification's literal decoder (incl. the matched-literal walk for states >= 7) reads s")
	vCellsAgree("literal bits are coded with the cells of table litState the specification prescribes")
}

// ---- OP2 / OP3: one operation through encoder.writeLiteral/writeMatch and
// decoder.readOp over the ideal channel, against the specification ------------------

// specReadOp is the format's operation decoder (lzma-specification.txt,
// "LZMA Decoding modes"), reading modelled bits and naming the cell each
// bit must be coded with. kind: 0 literal, 1 match, 2 short rep, 3 rep match,
// 4 end marker. It updates state and reps exactly as the format says.
func specReadOp(s *state, pos int64, prevByte, matchByte byte) (kind int, b byte, length uint32, dist uint32) {
	pb, lc, lp := uint(s.Properties.PB), uint(s.Properties.LC), uint(s.Properties.LP)
	posState := uint32(pos) & (1<<pb - 1)
	st := s.state
	if vTake(&s.isMatch[st<<4+posState]) == 0 {
		litState := (uint32(pos)&(1<<lp-1))<<lc + uint32(prevByte)>>(8-lc)
		b = specLit(&s.litCodec, st, matchByte, litState)
		s.state = specLitNext[st]
		return 0, b, 1, 0
	}
	if vTake(&s.isRep[st]) == 0 {
		s.rep[3], s.rep[2], s.rep[1] = s.rep[2], s.rep[1], s.rep[0]
		length = specLen(&s.lenCodec, posState)
		if st < 7 {
			s.state = 7
		} else {
			s.state = 10
		}
		s.rep[0] = specDist(&s.distCodec, length)
		if s.rep[0] == 0xFFFFFFFF {
			return 4, 0, 0, 0
		}
		return 1, 0, length + 2, s.rep[0]
	}
	if vTake(&s.isRepG0[st]) == 0 {
		if vTake(&s.isRepG0Long[st<<4+posState]) == 0 {
			if st < 7 {
				s.state = 9
			} else {
				s.state = 11
			}
			return 2, 0, 1, s.rep[0]
		}
	} else {
		var d uint32
		if vTake(&s.isRepG1[st]) == 0 {
			d = s.rep[1]
		} else {
			if vTake(&s.isRepG2[st]) == 0 {
				d = s.rep[2]
			} else {
				d = s.rep[3]
				s.rep[3] = s.rep[2]
			}
			s.rep[2] = s.rep[1]
		}
		s.rep[1] = s.rep[0]
		s.rep[0] = d
	}
	length = specLen(&s.repLenCodec, posState)
	if st < 7 {
		s.state = 8
	} else {
		s.state = 11
	}
	return 3, 0, length + 2, s.rep[0]
}

type vOpEnv struct {
	s    *state
	enc  *encoder
	dec  *decoder
	pos  int64
	prev byte
	mb   byte
}

// vOpSetup builds an encoder and a decoder that share one state object and
// see the same history: 8 arbitrary bytes, arbitrary position, arbitrary coder
// state number and reps.
func vOpSetup() *vOpEnv {
	pset := []Properties{{3, 0, 2}, {0, 2, 0}, {1, 1, 4}}
	if vThorough() {
		pset = append(pset, Properties{4, 0, 0}, Properties{0, 4, 3}, Properties{5, 2, 1}) // lc+lp up to 7; 8/4 would need a 3M-cell table initialised per run
	}
	props := pset[vConcretize(int(vNondetU8("props"))%len(pset))]
	s := newState(props)
	// the coder state number is case-split (12 values), which also is the shard key
	s.state = uint32(vConcretize(int(vNondetU8("state")) % 12))
	vAssume(int(s.state)%vShards() == vShardIdx())
	for i := range s.rep {
		s.rep[i] = vNondetU32("rep")
	}
	hist := vNondetBytes("hist", 8)
	pos := vNondetI64("pos")
	vAssume(pos >= 0 && pos < 1<<40)
	// encoder dictionary: history in data[0..7], newest last; no look-ahead
	ed, err := newEncoderDict(8, 4, &vRecMatcher{})
	vAssert(err == nil, "encoder dictionary")
	copy(ed.buf.data, hist)
	ed.buf.front, ed.buf.rear, ed.head = 8, 8, pos
	// decoder dictionary: the same history
	dd, err := newDecoderDict(8)
	vAssert(err == nil, "decoder dictionary")
	copy(dd.buf.data, hist)
	dd.buf.front, dd.buf.rear, dd.head = 8, 8, pos
	env := &vOpEnv{s: s, pos: pos}
	env.enc = &encoder{dict: ed, state: s, re: &rangeEncoder{}, margin: opLenMargin}
	env.dec = &decoder{Dict: dd, State: s, rd: &rangeDecoder{}, size: -1}
	// what the format calls prevByte and matchByte
	hl := int64(8)
	if pos < 8 {
		hl = pos
	}
	if hl >= 1 {
		env.prev = hist[7]
	}
	// states >= 7 are only reached after a match, whose distance lies inside the history
	vAssume(s.state < 7 || int64(s.rep[0]) < hl)
	if int64(s.rep[0]) < hl {
		env.mb = hist[7-vConcretize(int(s.rep[0]))]
	}
	return env
}

func VH_OP2_literal() {
	vValueChannel()
	vValueLevel = true
	vUnwind(40)
	env := vOpSetup()
	s := env.s
	st0, rep0 := s.state, s.rep
	b := vNondetU8("b")
	vAssert(env.enc.writeLiteral(lit{b}) == nil, "literal encoded")
	vAssert(len(vChan) == 2, "a literal is the isMatch bit and one literal-codec call")
	stE, repE := s.state, s.rep
	// the library's decoder on the same bits, from the same pre-state
	s.state, s.rep = st0, rep0
	op, err := env.dec.readOp()
	vAssert(err == nil && vChanPos == len(vChan), "decoder consumes exactly the encoder's bits")
	vCellsAgree("decoder addresses the cells the encoder used")
	l, isLit := op.(lit)
	vAssert(isLit && l.b == b, "decoder returns the literal")
	vAssert(s.state == stE && s.rep == repE, "encoder and decoder end in the same coder state")
	// the specification's decoder
	s.state, s.rep = st0, rep0
	vChanPos = 0
	kind, sb, _, _ := specReadOp(s, env.pos, env.prev, env.mb)
	vAssert(kind == 0 && sb == b && vChanPos == len(vChan), "the specification decodes the same literal")
	vCellsAgree("every bit of the literal is coded with the cell the specification prescribes")
	vAssert(s.state == stE && s.rep == repE, "and ends in the same coder state")
}

func VH_OP2_match() {
	vValueChannel()
	vValueLevel = true
	vUnwind(40)
	env := vOpSetup()
	s := env.s
	st0, rep0 := s.state, s.rep
	var m match
	kindSel := vConcretize(int(vNondetU8("opkind")) % 7)
	switch kindSel {
	case 0: // a match 2..273 at a distance that is none of the reps
		m.distance = int64(vNondetU32("dist")) + 1
		m.n = int(vNondetU16("n"))
		vAssume(m.n >= 2 && m.n <= 273)
		d32 := uint32(m.distance - 1)
		vAssume(d32 != rep0[0] && d32 != rep0[1] && d32 != rep0[2] && d32 != rep0[3])
	case 3, 4, 5, 6: // a match at the distance of rep g (first g with that distance)
		g := kindSel - 3
		m.distance = int64(rep0[g]) + 1
		m.n = int(vNondetU16("n"))
		vAssume(m.n >= 2 && m.n <= 273)
		for j := 0; j < g; j++ {
			vAssume(rep0[j] != rep0[g])
		}
	case 1: // short rep
		m.distance = int64(rep0[0]) + 1
		m.n = 1
	case 2: // end of stream marker
		m = eosMatch
		// the marker distance is only meaningful as a plain match: no rep may equal it
		vAssume(rep0[0] != 0xffffffff && rep0[1] != 0xffffffff && rep0[2] != 0xffffffff && rep0[3] != 0xffffffff)
	}
	vAssert(env.enc.writeMatch(m) == nil, "match encoded")
	vAssert(len(vChan) <= 7, "a match is at most 5 control bits, one length and one distance call")
	stE, repE := s.state, s.rep
	s.state, s.rep = st0, rep0
	op, err := env.dec.readOp()
	vAssert(vChanPos == len(vChan), "decoder consumes exactly the encoder's bits")
	vCellsAgree("decoder addresses the cells the encoder used")
	isEOS := m.distance == 1<<32 && rep0[0] != 0xffffffff && rep0[1] != 0xffffffff && rep0[2] != 0xffffffff && rep0[3] != 0xffffffff
	if isEOS {
		vAssert(err == errEOS, "distance 2^32 coded as a plain match is the end-of-stream marker")
	} else {
		vAssert(err == nil, "decoder accepts")
		dm, isMatch := op.(match)
		vAssert(isMatch && dm.distance == m.distance && dm.n == m.n, "decoder returns the same match")
	}
	vAssert(s.state == stE && s.rep == repE, "encoder and decoder end in the same coder state")
	s.state, s.rep = st0, rep0
	vChanPos = 0
	kind, _, length, dist := specReadOp(s, env.pos, env.prev, env.mb)
	vAssert(vChanPos == len(vChan), "the specification consumes the same number of bits")
	vCellsAgree("every bit of the match is coded with the cell the specification prescribes")
	if isEOS {
		vAssert(kind == 4, "specification sees the end marker")
	} else {
		vAssert(kind >= 1 && kind <= 3 && int(length) == m.n && int64(dist)+1 == m.distance, "specification decodes the same length and distance")
		if m.n == 1 {
			vAssert(kind == 2, "a one-byte match is the short rep")
		}
	}
	vAssert(s.state == stE && s.rep == repE, "and ends in the same coder state (state number and rep0..rep3)")
}

// OP3: the library's readOp on ARBITRARY bits (not only encoder-produced ones)
// equals the specification's decoder: same cells requested, same operation,
// same coder state. The modelled channel hands out fresh arbitrary bits.
var vFree bool

func vDecBitFree(d *rangeDecoder, p *prob) (uint32, error) {
	b := uint32(vNondetU8("bit")) & 1
	vChan = append(vChan, vBit{key: vPtrKey(p), bit: b})
	return b, nil
}

func vDecDirectFree(d *rangeDecoder) (uint32, error) {
	b := uint32(vNondetU8("dbit")) & 1
	vChan = append(vChan, vBit{bit: b, direct: true})
	return b, nil
}

func vLenDecFree(lc *lengthCodec, d *rangeDecoder, posState uint32) (uint32, error) {
	v := uint32(vNondetU16("len"))
	vAssume(v <= 271)
	vValPut('L', vPtrKey(&lc.choice[0]), uint64(posState), v)
	return v, nil
}
func vDistDecFree(dc *distCodec, d *rangeDecoder, l uint32) (uint32, error) {
	ls := l
	if ls > 3 {
		ls = 3
	}
	v := vNondetU32("dist")
	vValPut('D', 0, uint64(ls), v)
	return v, nil
}
func vLitDecFree(c *literalCodec, d *rangeDecoder, state uint32, match byte, litState uint32) (byte, error) {
	vAssert(int(litState+1)*0x300 <= len(c.probs), "literal context lies inside the literal table")
	v := vNondetU8("lit")
	vValPut('B', 0, vLitCtx(state, match, litState), uint32(v))
	return v, nil
}

func VH_OP3_readOp() {
	vChanReset()
	vValueLevel = true
	vSubst("(*rangeDecoder).DecodeBit", vDecBitFree)
	vSubst("(*rangeDecoder).DirectDecodeBit", vDecDirectFree)
	vSubst("(*lengthCodec).Decode", vLenDecFree)
	vSubst("(*distCodec).Decode", vDistDecFree)
	vSubst("(*literalCodec).Decode", vLitDecFree)
	vUnwind(40)
	env := vOpSetup()
	s := env.s
	st0, rep0 := s.state, s.rep
	op, err := env.dec.readOp()
	stL, repL := s.state, s.rep
	s.state, s.rep = st0, rep0
	vChanPos = 0
	kind, sb, length, dist := specReadOp(s, env.pos, env.prev, env.mb)
	vAssert(vChanPos == len(vChan), "library and specification read the same number of bits")
	vCellsAgree("library and specification request the same cells in the same order")
	switch kind {
	case 0:
		l, isLit := op.(lit)
		vAssert(err == nil && isLit && l.b == sb, "literal = specification")
	case 4:
		vAssert(err == errEOS, "end marker = specification")
	default:
		m, isMatch := op.(match)
		vAssert(err == nil && isMatch && m.n == int(length) && m.distance == int64(dist)+1, "match length and distance = specification")
	}
	vAssert(stL == s.state && repL == s.rep, "coder state number and rep0..rep3 = specification")
}

// ---- OP4 (C05, C06, C07, C09, C11, C13): decoder.decompress / decoder.Read control ----
//
// The termination logic of the decoder from an ARBITRARY state: readOp and
// apply are cut to their contracts (readOp: any operation of length 1..273,
// the end marker, io.EOF, or another error; apply: the dictionary grows by
// the operation's length), the dictionary ring is a slice of symbolic length
// (every reader configuration has Cap >= 4096). Asserted against the three
// termination modes of the format.

type vOP4 struct {
	d       *decoder
	calls   int
	lastErr error
	marker  bool // the model delivered the end marker
	ops     int
}

var vOp4 *vOP4

var vErrOther = vErrSrc

func vReadOpModel(d *decoder) (operation, error) {
	vOp4.calls++
	switch vConcretize(int(vNondetU8("readOp")) % 4) {
	case 0:
		n := int(vNondetU16("oplen"))
		vAssume(n >= 1 && n <= maxMatchLen)
		vAssume(vOp4.ops < 3) // bound: at most three operations per decompress call
		vOp4.ops++
		return match{distance: 1, n: n}, nil
	case 1:
		vOp4.marker = true
		d.eosMarker = true
		vOp4.lastErr = errEOS
		return nil, errEOS
	case 2:
		vOp4.lastErr = io.EOF
		return nil, io.EOF
	}
	vOp4.lastErr = vErrOther
	return nil, vErrOther
}

func vApplyModel(d *decoder, op operation) error {
	n := op.Len()
	vAssert(n <= d.Dict.Available(), "an operation is only applied when the window has room for it")
	d.Dict.buf.front = d.Dict.buf.addIndex(d.Dict.buf.front, n)
	d.Dict.head += int64(n)
	return nil
}

func VH_OP4_decompress() {
	vSubst("(*decoder).readOp", vReadOpModel)
	vSubst("(*decoder).apply", vApplyModel)
	vUnwind(6)
	// window sizes at the lower boundary and one large one (a symbolic ring length makes
	// the modular index arithmetic too hard for the solvers: unknown at 60 s)
	ri := vConcretize(int(vNondetU8("ring")) % 3)
	vAssume(ri%vShards() == vShardIdx())
	ringLen := []int{4097, 4098, 1<<16 + 1}[ri]
	dd := &decoderDict{}
	dd.buf.data = vOpaqueLen(make([]byte, 2), ringLen)
	dd.buf.front, dd.buf.rear = vNondetInt("front"), vNondetInt("rear")
	vAssume(dd.buf.front >= 0 && dd.buf.front < ringLen && dd.buf.rear >= 0 && dd.buf.rear < ringLen)
	dd.head = vNondetI64("head")
	start := vNondetI64("start")
	size := vNondetI64("size")
	vAssume(start >= 0 && start <= dd.head && dd.head < 1<<50 && size >= -1 && size < 1<<50)
	code := vNondetU32("code")
	d := &decoder{Dict: dd, State: &state{}, rd: &rangeDecoder{code: code, nrange: 0xffffffff}, start: start, size: size}
	d.eos = vNondetBool("eos")
	// reachable states: the declared size has not been exceeded yet
	vAssume(d.eos || size < 0 || dd.head-start < size || (size == 0 && dd.head == start))
	vOp4 = &vOP4{d: d}
	wasEOS := d.eos
	head0 := dd.head
	err := d.decompress()
	produced := dd.head - start
	if wasEOS {
		vAssert(err == io.EOF && vOp4.calls == 0 && dd.head == head0, "a finished decoder stays finished and reads nothing")
		return
	}
	if err == io.EOF {
		// clean end: exactly the three termination modes of the format
		viaMarker := vOp4.marker && code == 0 && (size < 0 || size == produced)
		viaSize := size >= 0 && produced == size && (code == 0 || vOp4.marker)
		vAssert(viaMarker || viaSize, "clean end only if (marker seen, coder at end, size unknown or met) or (declared size met exactly and coder at end or marker follows)")
		vAssert(d.eos, "a clean end is sticky")
	}
	if vOp4.lastErr == io.EOF {
		vAssert(err != nil && err != io.EOF, "end of input inside an operation is an error, never a clean end")
	}
	if vOp4.lastErr == vErrOther {
		vAssert(err == vErrOther, "a source error is returned unchanged")
	}
	if size >= 0 && produced > size {
		vAssert(err != nil && err != io.EOF, "more data than declared is an error")
	}
	if size == 0 && code == 0 && dd.head == head0 && dd.buf.Available() >= maxMatchLen {
		vAssert(err == io.EOF && vOp4.calls == 0, "declared size 0 with the coder at end: empty stream, no operation required")
	}
	if err == nil {
		vAssert(dd.buf.Available() < maxMatchLen, "decompress only stops without a verdict when the window is (nearly) full")
		vAssert(vOp4.ops >= 1 || head0 == dd.head, "progress or no room")
	}
}

// decoder.Read: delivers buffered bytes, io.EOF only when nothing is buffered
// and the stream is over, never more than len(p); a zero-length Read does not
// report EOF while data is pending.
func VH_OP4_read() {
	vSubst("(*decoder).readOp", vReadOpModel)
	vSubst("(*decoder).apply", vApplyModel)
	vUnwind(8)
	extra := vConcretize(int(vNondetU8("extra")) % 2)
	plen := vConcretize(int(vNondetU8("plen")) % 4)
	vAssume((extra*4+plen)%vShards() == vShardIdx())
	capN := 4096 + extra
	dd, err := newDecoderDict(capN)
	vAssert(err == nil, "dictionary")
	ringLen := capN + 1
	dd.buf.front, dd.buf.rear = vNondetInt("front"), vNondetInt("rear")
	vAssume(dd.buf.front >= 0 && dd.buf.front < ringLen && dd.buf.rear >= 0 && dd.buf.rear < ringLen)
	buffered := dd.buf.Buffered()
	vAssume(buffered <= 4 || buffered >= capN-2) // few pending bytes, or a nearly full window
	buffered = vConcretize(buffered)
	dd.head = int64(buffered) + vNondetI64("consumed")
	vAssume(dd.head >= int64(buffered) && dd.head < 1<<40)
	size := vNondetI64("size")
	vAssume(size >= -1 && size < 1<<40)
	d := &decoder{Dict: dd, State: &state{}, rd: &rangeDecoder{code: vNondetU32("code"), nrange: 0xffffffff}, start: 0, size: size}
	d.eos = vNondetBool("eos")
	vAssume(d.eos || size < 0 || dd.head < size || (size == 0 && dd.head == 0))
	vOp4 = &vOP4{d: d}
	p := make([]byte, plen)
	n, rerr := d.Read(p)
	vAssert(n >= 0 && n <= plen, "never more bytes than requested")
	if buffered > 0 {
		vAssert(!(n == 0 && rerr == io.EOF), "no end of stream is reported while decoded bytes are pending")
		want := plen
		if buffered < want && d.eos && vOp4.calls == 0 {
			want = buffered
		}
		if vOp4.calls == 0 {
			vAssert(n == want || rerr != nil, "pending bytes are delivered first")
		}
	}
	if rerr == io.EOF {
		vAssert(d.eos && dd.buf.Buffered() == 0, "io.EOF only when the stream is over and nothing is buffered")
	}
	if plen == 0 && buffered > 0 {
		vAssert(n == 0 && rerr == nil, "a zero-length Read with data pending returns (0, nil)")
	}
}
