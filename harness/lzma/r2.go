package lzma

import "io"

// Lemma R2.1 (C16, C03, C04, C05, C11): one step of Reader2.startChunk from
// an arbitrary chunk state over a nondeterministic source, against the
// format's two-flag automaton (h2.go) and reset rules.

func vDirty(s *state) {
	s.state = 5
	s.rep[0], s.rep[1], s.rep[2], s.rep[3] = 7, 8, 9, 10
	s.isMatch[3] = 777
	s.isRep[2] = 778
	s.litCodec.probs[10] = 99
	s.lenCodec.choice[0] = 555
	s.distCodec.alignCodec.probs[1] = 444
}

func vIsDirty(s *state) bool {
	return s.state == 5 && s.rep[0] == 7 && s.rep[1] == 8 && s.rep[2] == 9 && s.rep[3] == 10 &&
		s.isMatch[3] == 777 && s.isRep[2] == 778 && s.litCodec.probs[10] == 99 &&
		s.lenCodec.choice[0] == 555 && s.distCodec.alignCodec.probs[1] == 444
}

func vIsFresh(s *state) bool {
	return s.state == 0 && s.rep[0] == 0 && s.rep[1] == 0 && s.rep[2] == 0 && s.rep[3] == 0 &&
		s.isMatch[3] == probInit && s.isRep[2] == probInit && s.litCodec.probs[10] == probInit &&
		s.lenCodec.choice[0] == probInit && s.distCodec.alignCodec.probs[1] == probInit
}

func VH_R21_startChunk() {
	cs := chunkState(vNondetU8("cstate"))
	nd, np, valid, stopped := specFlags(cs)
	vAssume(valid)
	// 6 header + 5 preamble bytes, arbitrary; the source ends or fails after `avail` bytes
	data := vNondetBytes("d", 11)
	// LZMA2 demands lc+lp <= 4 (the library is lenient here, recorded in DESIGN §5 C03);
	// the bound also keeps the literal table at <= 0x300<<4 entries.
	pbyte := int(data[5])
	vAssume(pbyte >= 225 || pbyte%9+(pbyte/9)%5 <= 4)
	avail := vConcretize(int(vNondetU8("avail")) % 12)
	fails := vNondetBool("srcFails")
	src := &vSrc{data: data, end: avail, frag: vConcretize(int(vNondetU8("frag")) % 2)}
	if fails {
		src.failErr = vErrSrc
	}
	dict, _ := newDecoderDict(4096)
	dict.WriteByte('x')
	dict.WriteByte('y')
	r := &Reader2{r: src, cstate: cs, dict: dict}
	oldProps := Properties{LC: 1, LP: 1, PB: 1}
	hasDecoder := !np || vNondetBool("hasDecoder")
	var oldState *state
	if hasDecoder {
		// a decoder exists whenever a compressed chunk has been seen (states L, U; possibly R after a later dict reset)
		oldState = newState(oldProps)
		vDirty(oldState)
		r.decoder = &decoder{State: oldState, Dict: dict, rd: &rangeDecoder{}, size: 1, eos: true}
	}
	err := r.startChunk()

	// ---- what the format says ----
	if avail == 0 {
		if fails {
			vAssert(err == vErrSrc, "source error returned")
		} else {
			vAssert(err != nil && err != io.EOF, "a missing chunk header is an error, never io.EOF")
		}
		return
	}
	k := specChunkKind(data[0])
	if k < 0 {
		vAssert(err != nil && err != io.EOF, "control bytes 0x03..0x7f are rejected")
		vAssert(r.cstate == cs, "state unchanged")
		return
	}
	hl := 1
	switch {
	case k == 1 || k == 2:
		hl = 3
	case k == 3 || k == 4:
		hl = 5
	case k >= 5:
		hl = 6
	}
	if avail < hl {
		vAssert(err != nil && err != io.EOF, "incomplete chunk header is an error other than io.EOF")
		if fails {
			vAssert(err == vErrSrc, "source error returned")
		}
		return
	}
	if k >= 5 && data[5] >= 225 {
		vAssert(err != nil && err != io.EOF, "invalid properties byte rejected")
		return
	}
	if stopped {
		vAssert(err != nil && err != io.EOF, "nothing is accepted after the end chunk")
		return
	}
	nd2, np2, ok, end := specStep(nd, np, k)
	_ = nd2
	if !ok {
		vAssert(err != nil && err != io.EOF, "illegal chunk kind rejected at this chunk")
		vAssert(r.cstate == cs, "state unchanged on rejection")
		vAssert(dict.head == 2, "dictionary untouched on rejection")
		return
	}
	if end {
		vAssert(err == io.EOF && r.cstate == stop, "end chunk: io.EOF and state stop")
		vAssert(src.pos == 1 || src.frag == 0, "end chunk consumes one byte")
		return
	}
	// dictionary reset exactly for kinds 1 and 6
	if k == 1 || k == 6 {
		vAssert(dict.head == 0 && dict.dictLen() == 0, "dictionary reset: no earlier byte can be referenced")
	} else {
		vAssert(dict.head == 2, "dictionary kept")
	}
	if k <= 2 {
		vAssert(err == nil, "raw chunk accepted")
		u := int64(data[1])<<8 | int64(data[2])
		vAssert(r.chunkReader == io.Reader(r.ur) && r.ur.lr.N == u+1, "raw chunk reader limited to size+1 bytes")
		if hasDecoder {
			vAssert(vIsDirty(r.decoder.State), "coder state untouched by a raw chunk")
		}
		return
	}
	// LZMA chunk: needs the five preamble bytes, which must fit the declared compressed size
	if climit := int64(data[3])<<8 | int64(data[4]) + 1; climit < 5 {
		vAssert(err != nil && err != io.EOF, "compressed size too small for the coder preamble: error other than io.EOF")
		return
	}
	if avail < hl+5 {
		vAssert(err != nil && err != io.EOF, "end of input inside the coder preamble is an error other than io.EOF")
		if fails && !(avail > hl && data[hl] != 0) {
			vAssert(err == vErrSrc, "source error returned")
		}
		return
	}
	pre := data[hl : hl+5]
	code := uint32(pre[1])<<24 | uint32(pre[2])<<16 | uint32(pre[3])<<8 | uint32(pre[4])
	if pre[0] != 0 || code == 0xffffffff {
		vAssert(err != nil && err != io.EOF, "malformed coder preamble rejected")
		return
	}
	vAssert(err == nil, "legal LZMA chunk accepted")
	vAssert(!np2, "after an LZMA chunk no properties are pending")
	d := r.decoder
	vAssert(d != nil && r.chunkReader == io.Reader(d), "decoder installed as chunk reader")
	u := int64(data[0]&0x1f)<<16 | int64(data[1])<<8 | int64(data[2])
	c := int64(data[3])<<8 | int64(data[4])
	vAssert(d.size == u+1 && !d.eos && d.start == d.Dict.pos(), "chunk decodes exactly size+1 bytes from here")
	lr := d.rd.br.(*breader).Reader.(*io.LimitedReader)
	vAssert(lr.N == c+1-5, "compressed data limited to csize+1 bytes")
	vAssert(d.rd.code == code && d.rd.nrange == 0xffffffff, "range decoder primed from the preamble")
	switch k {
	case 3:
		vAssert(d.State == oldState && vIsDirty(d.State), "kind L: coder state continues")
	case 4:
		vAssert(vIsFresh(d.State) && d.State.Properties == oldProps, "kind LR: state reset, properties kept")
	case 5, 6:
		pb := int(data[5])
		want := Properties{LC: pb % 9, LP: (pb / 9) % 5, PB: pb / 45}
		vAssert(vIsFresh(d.State) && d.State.Properties == want, "new properties: fresh state with the header's lc/lp/pb")
		vAssert(d.State.posBitMask == uint32(1)<<uint(want.PB)-1, "position mask from pb")
		vAssert(len(d.State.litCodec.probs) == 0x300<<uint(want.LC+want.LP), "literal table sized 0x300 << (lc+lp)")
	}
}

// ---- OP1: state machine tables against the specification -----------------

var specLitNext = [12]uint32{0, 0, 0, 0, 1, 2, 3, 4, 5, 6, 4, 5}

func VH_OP1_tables() {
	s := &state{}
	st := vNondetU32("state")
	vAssume(st < 12)
	s.state = st
	s.updateStateLiteral()
	vAssert(s.state == specLitNext[st], "state after literal = spec table")
	s.state = st
	s.updateStateMatch()
	if st < 7 {
		vAssert(s.state == 7, "match after literal-ish state -> 7")
	} else {
		vAssert(s.state == 10, "match after match-ish state -> 10")
	}
	s.state = st
	s.updateStateRep()
	if st < 7 {
		vAssert(s.state == 8, "rep -> 8")
	} else {
		vAssert(s.state == 11, "rep -> 11")
	}
	s.state = st
	s.updateStateShortRep()
	if st < 7 {
		vAssert(s.state == 9, "short rep -> 9")
	} else {
		vAssert(s.state == 11, "short rep -> 11")
	}
}

func VH_OP1_contexts() {
	lc, lp, pb := int(vNondetU8("lc")), int(vNondetU8("lp")), int(vNondetU8("pb"))
	vAssume(lc <= 8 && lp <= 4 && pb <= 4)
	s := &state{Properties: Properties{LC: lc, LP: lp, PB: pb}, posBitMask: uint32(1)<<uint(pb) - 1}
	s.state = vNondetU32("state")
	vAssume(s.state < 12)
	head := vNondetI64("head")
	vAssume(head >= 0)
	prev := vNondetU8("prev")
	s1, s2, ps := s.states(head)
	vAssert(s1 == s.state, "state1")
	vAssert(ps == uint32(uint64(head)&(uint64(1)<<uint(pb)-1)), "posState = pos mod 2^pb")
	vAssert(s2 == s.state<<4|ps && s2 < 12<<4, "context index state*16+posState within the tables")
	ls := s.litState(prev, head)
	want := uint32((uint64(head)&(uint64(1)<<uint(lp)-1))<<uint(lc)) + uint32(prev)>>(8-uint(lc))
	vAssert(ls == want, "literal context = ((pos mod 2^lp) << lc) + (prev >> (8-lc))")
	vAssert(ls < uint32(1)<<uint(lc+lp), "literal context below 2^(lc+lp)")
}

func VH_OP1_newState() {
	code := vNondetU8("code")
	vAssume(code < 225)
	p, err := PropertiesForCode(code)
	vAssert(err == nil && p.Code() == code, "properties code round trip")
	vAssert(p.LC == int(code)%9 && p.LP == (int(code)/9)%5 && p.PB == int(code)/45, "code = (pb*5+lp)*9+lc")
}
