package lzma

import "github.com/ulikunitz/xz/internal/hash"

// Lemmas M1/M2 (C01, C02): every operation a match finder proposes is valid
// with respect to the dictionary - it can be decoded to exactly the bytes it
// covers. M3 (C17): redundancy inside the window is found.
//
// Pre-states are built by the real code (encoderDict.Write, Discard ->
// matcher.Write, NextOp) from the empty dictionary on N symbolic bytes, in
// tiny rings so that wrap-around, eviction from the dictionary and
// tree-node recycling are exercised.

// vRoller is an adversarial rolling hash for the hash-table matcher: the
// validity of NextOp must not depend on the hash function at all, so the
// hash is either constant (every position lands in one chain) or the low bit
// of the last byte (two chains).
type vRoller struct {
	kind int
	n    int
}

func (r *vRoller) Len() int { return r.n }
func (r *vRoller) RollByte(x byte) uint64 {
	if r.kind == 0 {
		return 0
	}
	return uint64(vConcretize(int(x & 1)))
}

var _ hash.Roller = &vRoller{}

type vMatchCfg struct {
	dictCap, bufSize int
}

func vMatchCfgs() []vMatchCfg {
	if vThorough() {
		return []vMatchCfg{{2, 3}, {3, 4}, {4, 5}, {6, 4}}
	}
	return []vMatchCfg{{2, 3}, {4, 5}}
}

// vCheckOp asserts that op is a valid operation at position pos of seq
// (seq = everything written so far; seq[:pos] is history, seq[pos:] the
// look-ahead).
func vCheckOp(op operation, seq []byte, pos int, d *encoderDict, rep0 uint32) int {
	switch x := op.(type) {
	case lit:
		vAssert(x.b == seq[pos], "literal is the next input byte")
		return 1
	case match:
		dictLen := d.DictLen()
		vAssert(x.distance >= 1 && x.distance <= int64(dictLen), "match distance within the dictionary (1..DictLen)")
		vAssert(x.distance <= int64(pos), "match distance does not reach before the start of the stream")
		vAssert(x.n >= 1 && x.n <= len(seq)-pos && x.n <= maxMatchLen, "match length within the look-ahead")
		if x.n == 1 {
			vAssert(uint32(x.distance-1) == rep0, "a one-byte match is only proposed at distance rep0 (short rep)")
		}
		n := vConcretize(x.n)
		dist := vConcretize(int(x.distance))
		var diff byte
		for k := 0; k < n; k++ {
			diff |= seq[pos+k] ^ seq[pos+k-dist]
		}
		vAssert(diff == 0, "the match reproduces exactly the bytes it covers")
		return n
	}
	vAssert(false, "operation is a literal or a match")
	return 1
}

func vMatcherHarness(bt bool) {
	cfgs := vMatchCfgs()
	ci := vConcretize(int(vNondetU8("cfg")) % len(cfgs))
	vAssume(vShards() <= 6 || ci%2 == vShardIdx()/6)
	c := cfgs[ci]
	var m matcher
	if bt {
		t, err := newBinTree(c.dictCap)
		vAssert(err == nil, "tree constructed")
		m = t
	} else {
		kind := vConcretize(int(vNondetU8("roller")) % 2)
		newRoller = func(n int) hash.Roller { return &vRoller{kind: kind, n: n} }
		t, err := newHashTable(c.dictCap, 4)
		vAssert(err == nil, "hash table constructed")
		m = t
	}
	d, err := newEncoderDict(c.dictCap, c.bufSize, m)
	vAssert(err == nil, "dictionary constructed")
	n := 6
	if vThorough() {
		n = 7
	}
	seq := vNondetBytes("b", n)
	// zero bytes matter (an empty ring is all zeros): byte 0 is either 0 or arbitrary
	first := vConcretize(int(vNondetU8("firstIsZero")) % 2)
	if first == 1 {
		seq[0] = 0
	}
	// feeding schedule: one byte per round / two per round / everything the dictionary takes;
	// partial: the encoder leaves one byte in the look-ahead while more input is to come
	sched := vConcretize(int(vNondetU8("sched")) % 3)
	vAssume(first+2*sched == vShardIdx()%6 || vShards() == 1)
	partial := vConcretize(int(vNondetU8("partial")) % 2)
	pos, fed := 0, 0
	for pos < n {
		k := []int{1, 2, n}[sched]
		if fed+k > n {
			k = n - fed
		}
		w, _ := d.Write(seq[fed : fed+k])
		fed += w
		vAssert(d.Buffered() == fed-pos, "look-ahead holds the bytes not yet encoded")
		leave := 0
		if fed < n && d.Buffered() > 1 && partial == 1 {
			leave = 1
		}
		for d.Buffered() > leave {
			rep0 := vNondetU32("rep0")
			op := m.NextOp([4]uint32{rep0, 0, 0, 0})
			l := vCheckOp(op, seq[:fed], pos, d, rep0)
			vAssert(op.Len() == l, "operation length")
			d.Discard(l)
			pos += l
			vAssert(d.Pos() == int64(pos), "dictionary position follows the operations")
		}
		if w == 0 && d.Buffered() == 0 && fed < n {
			vAssert(d.Available() > 0, "an empty look-ahead leaves room to write")
		}
	}
	vReach("all input covered by valid operations")
}

func VH_M1_hashTable() { vUnwind(40); vMatcherHarness(false) }
func VH_M2_binTree()   { vUnwind(40); vMatcherHarness(true) }
