package lzma

import "github.com/ulikunitz/xz/internal/hash"

// Lemmas M1/M2 (C01, C02): every operation a match finder proposes is valid
// with respect to the dictionary - it can be decoded to exactly the bytes it
// covers. M3 (C17): redundancy inside the window is found.
//
// Pre-states are built by the real code (encoderDict.Write, Discard ->
// matcher.Write, NextOp) from the empty dictionary on N symbolic bytes, in
// tiny rings so that wrap-around, eviction from the dictionary and
// tree-node recycling are exercised.

// vRoller is an adversarial rolling hash for the hash-table matcher: the
// validity of NextOp must not depend on the hash function at all, so the
// hash is either constant (every position lands in one chain) or the low bit
// of the last byte (two chains).
type vRoller struct {
	kind int
	n    int
}

func (r *vRoller) Len() int { return r.n }
func (r *vRoller) RollByte(x byte) uint64 {
	if r.kind == 0 {
		return 0
	}
	return uint64(vConcretize(int(x & 1)))
}

var _ hash.Roller = &vRoller{}

type vMatchCfg struct {
	dictCap, bufSize int
}

func vMatchCfgs() []vMatchCfg {
	if vThorough() {
		return []vMatchCfg{{2, 3}, {3, 4}, {4, 5}, {6, 4}}
	}
	return []vMatchCfg{{2, 3}, {4, 5}}
}

// vCheckOp asserts that op is a valid operation at position pos of seq
// (seq = everything written so far; seq[:pos] is history, seq[pos:] the
// look-ahead).
func vCheckOp(op operation, seq []byte, pos int, d *encoderDict, rep0 uint32) int {
	switch x := op.(type) {
	case lit:
		vAssert(x.b == seq[pos], "literal is the next input byte")
		return 1
	case match:
		dictLen := d.DictLen()
		vAssert(x.distance >= 1 && x.distance <= int64(dictLen), "match distance within the dictionary (1..DictLen)")
		vAssert(x.distance <= int64(pos), "match distance does not reach before the start of the stream")
		vAssert(x.n >= 1 && x.n <= len(seq)-pos && x.n <= maxMatchLen, "match length within the look-ahead")
		if x.n == 1 {
			vAssert(uint32(x.distance-1) == rep0, "a one-byte match is only proposed at distance rep0 (short rep)")
		}
		n := vConcretize(x.n)
		dist := vConcretize(int(x.distance))
		var diff byte
		for k := 0; k < n; k++ {
			diff |= seq[pos+k] ^ seq[pos+k-dist]
		}
		vAssert(diff == 0, "the match reproduces exactly the bytes it covers")
		return n
	}
	vAssert(false, "operation is a literal or a match")
	return 1
}

func vMatcherHarness(bt bool) {
	cfgs := vMatchCfgs()
	ci := vConcretize(int(vNondetU8("cfg")) % len(cfgs))
	vAssume(vShards() <= 6 || ci%2 == vShardIdx()/6)
	c := cfgs[ci]
	var m matcher
	if bt {
		t, err := newBinTree(c.dictCap)
		vAssert(err == nil, "tree constructed")
		m = t
	} else {
		kind := vConcretize(int(vNondetU8("roller")) % 2)
		newRoller = func(n int) hash.Roller { return &vRoller{kind: kind, n: n} }
		t, err := newHashTable(c.dictCap, 4)
		vAssert(err == nil, "hash table constructed")
		m = t
	}
	d, err := newEncoderDict(c.dictCap, c.bufSize, m)
	vAssert(err == nil, "dictionary constructed")
	n := 6
	if vThorough() && bt {
		n = 7 // the tree matcher is cheap enough for one more byte; the hash-table harness forks far more
	}
	seq := vNondetBytes("b", n)
	// zero bytes matter (an empty ring is all zeros): byte 0 is either 0 or arbitrary
	first := vConcretize(int(vNondetU8("firstIsZero")) % 2)
	if first == 1 {
		seq[0] = 0
	}
	// feeding schedule: one byte per round / two per round / everything the dictionary takes;
	// partial: the encoder leaves one byte in the look-ahead while more input is to come
	sched := vConcretize(int(vNondetU8("sched")) % 3)
	vAssume(first+2*sched == vShardIdx()%6 || vShards() == 1)
	partial := vConcretize(int(vNondetU8("partial")) % 2)
	pos, fed := 0, 0
	for pos < n {
		k := []int{1, 2, n}[sched]
		if fed+k > n {
			k = n - fed
		}
		w, _ := d.Write(seq[fed : fed+k])
		fed += w
		vAssert(d.Buffered() == fed-pos, "look-ahead holds the bytes not yet encoded")
		leave := 0
		if fed < n && d.Buffered() > 1 && partial == 1 {
			leave = 1
		}
		for d.Buffered() > leave {
			rep0 := vNondetU32("rep0")
			op := m.NextOp([4]uint32{rep0, 0, 0, 0})
			l := vCheckOp(op, seq[:fed], pos, d, rep0)
			vAssert(op.Len() == l, "operation length")
			d.Discard(l)
			pos += l
			vAssert(d.Pos() == int64(pos), "dictionary position follows the operations")
		}
		if w == 0 && d.Buffered() == 0 && fed < n {
			vAssert(d.Available() > 0, "an empty look-ahead leaves room to write")
		}
	}
	vReach("all input covered by valid operations")
}

func VH_M1_hashTable() { vUnwind(40); vMatcherHarness(false) }
func VH_M2_binTree()   { vUnwind(40); vMatcherHarness(true) }

// ---- M3 (C17): redundancy inside the window is found ------------------------

// vUFRoller: two extreme hash functions of the last n bytes - the constant one
// (every word collides with every other) and the ideal one for a given word
// (nothing collides with it). The real CyclicPoly lies in between and depends
// only on the last n bytes (lemma M4).
type vUFRoller struct {
	n    int
	last uint64
	k    int
	bits uint64 // 0: constant hash (every word collides); 1: ideal hash for the word `word` (nothing collides with it)
	word uint64
}

func (r *vUFRoller) Len() int { return r.n }
func (r *vUFRoller) RollByte(x byte) uint64 {
	r.last = r.last<<8 | uint64(x)
	if r.n < 8 {
		r.last &= 1<<(8*uint(r.n)) - 1
	}
	if r.k < r.n {
		r.k++
	}
	if r.bits == 0 {
		return 0
	}
	if r.k == r.n && r.last == r.word {
		return 1
	}
	return 0
}

// X.Y.X: X = 4 arbitrary bytes >= 0x80, Y = 5..6 fixed distinct small bytes, so
// that the second X lies 9..10 bytes after the first one - beyond the eight
// short distances that are always tried - and occurs nowhere else.
func vXYX(bt bool) {
	var m matcher
	if bt {
		t, _ := newBinTree(16)
		m = t
	} else {
		bits := uint64(vConcretize(int(vNondetU8("hashbits")) % 2))
		newRoller = func(n int) hash.Roller { return &vUFRoller{n: n, bits: bits} }
		t, _ := newHashTable(16, 4)
		m = t
	}
	d, err := newEncoderDict(16, 12, m)
	vAssert(err == nil, "dictionary constructed")
	x := vNondetBytes("x", 4)
	vAssume(x[0] >= 0x80 && x[1] >= 0x80 && x[2] >= 0x80 && x[3] >= 0x80)
	if ht, ok := m.(*hashTable); ok {
		w := uint64(x[0])<<24 | uint64(x[1])<<16 | uint64(x[2])<<8 | uint64(x[3])
		ht.wr.(*vUFRoller).word = w
		ht.hr.(*vUFRoller).word = w
	}
	ylen := 5 + vConcretize(int(vNondetU8("ylen"))%2)
	// bytes before the first X: 0 or 1, or 14..21 so that the ring of 29 cells has wrapped
	// and the wrap point falls before, inside or after the first X and the look-ahead
	pi := vConcretize(int(vNondetU8("pre")) % 10)
	vAssume(pi%vShards() == vShardIdx())
	pre := []int{0, 1, 14, 15, 16, 17, 18, 19, 20, 21}[pi]
	var hist []byte
	for i := 0; i < pre; i++ {
		hist = append(hist, byte(0x11+i))
	}
	hist = append(hist, x...)
	hist = append(hist, []byte{1, 2, 3, 4, 5, 6}[:ylen]...)
	// the encoder has coded these bytes; the matcher has seen them (fed in pieces that fit the look-ahead)
	for off := 0; off < len(hist); off += 8 {
		end := off + 8
		if end > len(hist) {
			end = len(hist)
		}
		k, _ := d.Write(hist[off:end])
		vAssert(k == end-off, "history piece fits")
		d.Discard(end - off)
	}
	la := append([]byte{}, x...)
	la = append(la, 0x7f)
	k, _ := d.Write(la)
	vAssert(k == len(la), "look-ahead fits")
	rep0 := vNondetU32("rep0")
	op := m.NextOp([4]uint32{rep0, 0, 0, 0})
	mt, isMatch := op.(match)
	vAssert(isMatch, "a repetition 9-10 bytes back inside the dictionary yields a match, not a literal")
	vAssert(mt.n >= 4, "the match covers the whole repeated word")
	vAssert(mt.distance == int64(4+ylen), "at the distance of the earlier occurrence")
}

func VH_M3_xyx_ht() { vUnwind(40); vXYX(false) }
func VH_M3_xyx_bt() { vUnwind(40); vXYX(true) }

// A run: look-ahead of k equal bytes preceded by the same byte -> (dist 1, n = k).
func VH_M3_run() {
	vUnwind(40)
	bt := vNondetBool("binTree")
	var m matcher
	if bt {
		t, _ := newBinTree(16)
		m = t
	} else {
		newRoller = func(n int) hash.Roller { return &vUFRoller{n: n, bits: 0} }
		t, _ := newHashTable(16, 4)
		m = t
	}
	d, _ := newEncoderDict(16, 12, m)
	b := vNondetU8("b")
	h := 1 + vConcretize(int(vNondetU8("hist"))%5)
	k := 2 + vConcretize(int(vNondetU8("k"))%7)
	buf := make([]byte, h+k)
	for i := range buf {
		buf[i] = b
	}
	d.Write(buf[:h])
	d.Discard(h)
	d.Write(buf[h:])
	op := m.NextOp([4]uint32{vNondetU32("rep0"), 0, 0, 0})
	mt, isMatch := op.(match)
	vAssert(isMatch && mt.n == k, "a run is covered by one match of the full look-ahead length")
	vAssert(mt.distance >= 1 && mt.distance <= int64(h), "at a distance inside the run")
}

// ---- M4: the rolling hash depends only on the last n bytes -------------------

func VH_M4_roll() {
	n := 4
	la := vConcretize(int(vNondetU8("la")) % 4)
	lb := vConcretize(int(vNondetU8("lb")) % 4)
	pa := vNondetBytes("pa", la)
	pb := vNondetBytes("pb", lb)
	s := vNondetBytes("s", n)
	ra, rb := hash.NewCyclicPoly(n), hash.NewCyclicPoly(n)
	var ha, hb uint64
	for _, c := range pa {
		ra.RollByte(c)
	}
	for _, c := range pb {
		rb.RollByte(c)
	}
	for _, c := range s {
		ha = ra.RollByte(c)
		hb = rb.RollByte(c)
	}
	vAssert(ha == hb, "hash after >= n bytes is a function of the last n bytes only")
}
