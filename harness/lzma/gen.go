package lzma

import (
	"bytes"
	"io"
)

// GEN (C03, C07 reader side, C16): streams produced by the reference
// encoder from arbitrary legal operation sequences and chunk layouts -
// constructs the library's own greedy encoder never emits (rep1-3 chains,
// short reps, maximal lengths, distances at the start of the window, mid-
// stream resets) - must be decoded by the library's readers to exactly the
// bytes the format defines, ending cleanly.

// vOpMenu returns the k-th operation of a small menu relative to a history
// of hl bytes.
func vOpMenu(k int, hl int) VSpecOp {
	switch k {
	case 0:
		return VSpecOp{Kind: 0, Byte: 0}
	case 1:
		return VSpecOp{Kind: 0, Byte: 'a'}
	case 2:
		return VSpecOp{Kind: 0, Byte: 0xff}
	case 3:
		return VSpecOp{Kind: 1, Dist: 0, Len: 2}
	case 4:
		return VSpecOp{Kind: 1, Dist: uint32(hl - 1), Len: 3} // oldest byte of the window
	case 5:
		return VSpecOp{Kind: 2}
	case 6:
		return VSpecOp{Kind: 3, Rep: 0, Len: 2}
	case 7:
		return VSpecOp{Kind: 3, Rep: 1, Len: 18}
	case 8:
		return VSpecOp{Kind: 3, Rep: 2, Len: 9}
	case 9:
		return VSpecOp{Kind: 3, Rep: 3, Len: 2}
	case 10:
		return VSpecOp{Kind: 1, Dist: 1, Len: 273}
	}
	return VSpecOp{Kind: 1, Dist: uint32(hl / 2), Len: 10}
}

const vMenuSize = 12

func vGenOps(n int) []VSpecOp {
	// history length is tracked abstractly to pick valid distances
	var ops []VSpecOp
	hl := 0
	for i := 0; i < n; i++ {
		k := vConcretize(int(vNondetU8("op")) % vMenuSize)
		if i == 0 {
			vAssume(k%vShards() == vShardIdx()%vMenuSize || vShards() == 1)
		}
		if hl == 0 {
			vAssume(k <= 2)
		}
		op := vOpMenu(k, hl)
		ops = append(ops, op)
		switch op.Kind {
		case 0, 2:
			hl++
		default:
			hl += op.Len
		}
	}
	return ops
}

func vGenLen() int { return 3 }

func VH_GEN_lzma() {
	pset := []Properties{{3, 0, 2}, {0, 0, 0}, {4, 1, 3}, {2, 2, 1}}
	props := pset[vConcretize(int(vNondetU8("props"))%len(pset))]
	mode := vConcretize(int(vNondetU8("mode")) % 3)
	n := vConcretize(int(vNondetU8("n")) % (vGenLen() + 1))
	ops := vGenOps(n)
	z, content, ok := VSpecLZMAEncode(uint(props.LC), uint(props.LP), uint(props.PB), 4096, ops, mode >= 1, mode == 2)
	vAssume(ok) // sequences with a rep distance beyond the history are not legal streams
	// sanity of the generator itself
	ref, rok := VSpecLZMADecode(z)
	vAssert(rok && bytes.Equal(ref, content), "reference decoder reads the reference encoder")
	// the window is max(header, 4096, config): the result must not depend on the configured capacity
	dictCap := []int{0, 4096, 1 << 16}[(n+mode)%3]
	if vThorough() {
		dictCap = []int{0, 4096, 1 << 16}[vConcretize(int(vNondetU8("dictCap"))%3)]
	}
	r, err := ReaderConfig{DictCap: dictCap}.NewReader(&vSrc{data: z, end: len(z)})
	vAssert(err == nil, "valid .lzma stream opens")
	out, err := vReadAll(r, 300)
	vAssert(err == io.EOF, "valid .lzma stream ends cleanly")
	vAssert(bytes.Equal(out, content), "decoded bytes are what the format defines")
}

// LZMA2: chunk sequences over all 7 kinds; the library must accept exactly
// the legal ones and decode them to the right bytes.
func VH_GEN_lzma2() {
	nchunks := 3 // thorough keeps 3 chunks and lengthens the chunk payloads instead (21^4 sequences are out of reach)
	var chunks []VSpecLZMA2Chunk
	needDict, needProps := true, true
	legal := true
	legalPrefix := 0 // chunks before the first illegal one
	hl := 0
	ended := false
	for i := 0; i < nchunks && !ended; i++ {
		kind := vConcretize(int(vNondetU8("kind")) % 7)
		if i == 1 {
			vAssume(kind == vShardIdx()%7 || vShards() == 1)
		}
		if i == 2 {
			vAssume(vShards() <= 7 || kind%2 == vShardIdx()/7)
		}
		if kind == 0 {
			ended = true
			break
		}
		nd, np, ok, _ := specStep(needDict, needProps, kind)
		if ok && legal {
			needDict, needProps = nd, np
			legalPrefix++
		} else {
			legal = false
		}
		if kind == 1 || kind == 6 {
			hl = 0
		}
		c := VSpecLZMA2Chunk{Kind: kind}
		if kind <= 2 {
			c.Raw = []byte{'r', byte('0' + i)}
			hl += 2
		} else {
			if kind >= 5 {
				pv := vConcretize(int(vNondetU8("props")) % 2)
				p := []Properties{{3, 0, 2}, {0, 4, 0}}[pv]
				c.LC, c.LP, c.PB = uint(p.LC), uint(p.LP), uint(p.PB)
			}
			// chunk payload: one of three short operation lists (operation-level
			// variety is lemma GEN-lzma; here the chunk layer is the subject)
			var ks []int
			switch vConcretize(int(vNondetU8("payload")) % 3) {
			case 0:
				ks = []int{1}
			case 1:
				ks = []int{0, 5}
			case 2:
				ks = []int{1, 3, 6}
			}
			if hl > 0 && vThorough() {
				ks = append(ks, 4, 7) // thorough: also the oldest byte of the window and a long rep1
			}
			for _, k := range ks {
				op := vOpMenu(k, hl)
				c.Ops = append(c.Ops, op)
				switch op.Kind {
				case 0, 2:
					hl++
				default:
					hl += op.Len
				}
			}
		}
		chunks = append(chunks, c)
		if !legal {
			break // one illegal chunk is enough; what follows is irrelevant
		}
	}
	// The reference encoder needs properties to code an LZMA chunk at all; an
	// illegal "LZMA without properties ever" chunk is materialised with default ones.
	z, content, ok := vEncodeChunks(chunks)
	vAssume(ok)
	r, err := Reader2Config{DictCap: 4096}.NewReader2(&vSrc{data: z, end: len(z)})
	vAssert(err == nil, "reader constructed")
	out, rerr := vReadAll(r, 7)
	_, _, _, refok := VSpecLZMA2Decode(z, 4096)
	vAssert(refok == legal, "generator and reference decoder agree on legality")
	if legal {
		vAssert(rerr == io.EOF, "legal chunk sequence ends cleanly")
		vAssert(bytes.Equal(out, content), "legal chunk sequence decodes to the right bytes")
	} else {
		vAssert(rerr != nil && rerr != io.EOF, "illegal chunk sequence is rejected")
		vAssert(vIsPrefix(out, content), "bytes delivered before the rejection are a prefix of the legal part")
	}
	_ = legalPrefix
}

// vEncodeChunks is VSpecLZMA2Encode, but able to materialise illegal
// sequences: an LZMA chunk arriving before any properties uses lc=3 lp=0 pb=2.
func vEncodeChunks(chunks []VSpecLZMA2Chunk) (z, content []byte, ok bool) {
	x := &VSpecEnc{}
	have := false
	for _, c := range chunks {
		if c.Kind == 1 || c.Kind == 6 {
			x.histStart = len(x.hist)
		}
		if c.Kind <= 2 {
			n := len(c.Raw)
			z = append(z, byte(c.Kind), byte((n-1)>>8), byte(n-1))
			z = append(z, c.Raw...)
			x.hist = append(x.hist, c.Raw...)
			continue
		}
		if c.Kind >= 5 {
			x.m.reset(c.LC, c.LP, c.PB)
			have = true
		} else if !have {
			x.m.reset(3, 0, 2)
			have = true
		} else if c.Kind == 4 {
			x.m.reset(x.m.lc, x.m.lp, x.m.pb)
		}
		x.e.init()
		before := len(x.hist)
		for _, op := range c.Ops {
			if !x.Put(op) {
				return nil, nil, false
			}
		}
		x.e.flush()
		u := len(x.hist) - before
		cs := len(x.e.out)
		ctrl := byte(0x80 | (c.Kind-3)<<5 | ((u-1)>>16)&0x1f)
		z = append(z, ctrl, byte((u-1)>>8), byte(u-1), byte((cs-1)>>8), byte(cs-1))
		if c.Kind >= 5 {
			z = append(z, byte((c.PB*5+c.LP)*9+c.LC))
		}
		z = append(z, x.e.out...)
	}
	z = append(z, 0)
	return z, x.hist, true
}

// GEN-far: matches at large distances through the REAL range coder. A
// history of 300 bytes (one raw chunk) or 131072 bytes (two raw chunks of
// 64 KiB) is followed by an LZMA chunk holding a match at a distance around
// the slot boundaries of the distance codec (direct bits and align bits),
// then a literal and a rep0 match. TC3 decides the distance codec on all
// 2^32 values over the ideal channel; this run connects it with the real
// arithmetic coder and the real window.
func VH_GEN_far() {
	big := vConcretize(int(vNondetU8("bigHistory"))%2) == 1
	vAssume(vShards() == 1 || (vShardIdx() == 1) == big)
	var chunks []VSpecLZMA2Chunk
	hl := 300
	mk := func(n, seed int) []byte {
		p := make([]byte, n)
		for i := range p {
			p[i] = byte((i*7 + seed) % 251)
		}
		return p
	}
	if big {
		chunks = append(chunks, VSpecLZMA2Chunk{Kind: 1, Raw: mk(65536, 3)}, VSpecLZMA2Chunk{Kind: 2, Raw: mk(65536, 5)})
		hl = 131072
	} else {
		chunks = append(chunks, VSpecLZMA2Chunk{Kind: 1, Raw: mk(300, 3)})
	}
	var dists []uint32
	if big {
		dists = []uint32{65534, 65535, 65536, 98303, 98304, 131071}
	} else {
		dists = []uint32{3, 4, 126, 127, 128, 191, 192, 255, 256, 299}
	}
	dist := dists[vConcretize(int(vNondetU8("dist"))%len(dists))]
	n := []int{2, 17, 273}[vConcretize(int(vNondetU8("len"))%3)]
	pv := vConcretize(int(vNondetU8("props")) % 2)
	p := []Properties{{3, 0, 2}, {0, 2, 4}}[pv]
	chunks = append(chunks, VSpecLZMA2Chunk{Kind: 5, LC: uint(p.LC), LP: uint(p.LP), PB: uint(p.PB),
		Ops: []VSpecOp{{Kind: 1, Dist: dist, Len: n}, {Kind: 0, Byte: 0xa5}, {Kind: 3, Rep: 0, Len: 5}}})
	z, content, ok := VSpecLZMA2Encode(chunks)
	vAssert(ok && len(content) == hl+n+1+5, "generator produces a legal stream")
	window := 4096
	if big {
		window = 1 << 18
	}
	ref, used, _, rok := VSpecLZMA2Decode(z, uint32(window))
	vAssert(rok == (int(dist) < window) && (!rok || (used == len(z) && bytes.Equal(ref, content))), "reference decoder agrees (and rejects a distance beyond the declared window)")
	r, err := Reader2Config{DictCap: window}.NewReader2(&vSrc{data: z, end: len(z)})
	vAssert(err == nil, "reader constructed")
	out, rerr := vReadAll(r, 4000)
	if int(dist) < window {
		vAssert(rerr == io.EOF && bytes.Equal(out, content), "a match at a large distance decodes to the right bytes")
	} else {
		vAssert(rerr != nil && rerr != io.EOF, "a distance beyond the window is rejected")
	}
}
