package lzma

// C18 / lemma H2.3: dictionary-size code.

// specDictSize is the .xz specification's formula (section 5.3.1), written
// independently of the library.
func specDictSize(c byte) int64 {
	if c == 40 {
		return 1<<32 - 1
	}
	return int64(2|c&1) << (uint(c)/2 + 11)
}

func VH_C18_encode() {
	n := vNondetI64("n")
	vAssume(1 <= n && n <= 1<<32-1)
	vUnwind(64)
	c := EncodeDictCap(n)
	vAssert(c <= 40, "code in range")
	d, err := DecodeDictCap(c)
	vAssert(err == nil, "own code decodes")
	vAssert(d == specDictSize(c), "decode = spec")
	vAssert(d >= n, "declared size covers the capacity")
	vAssert(c == 0 || specDictSize(c-1) < n, "smallest such code")
	vReach("end")
}

// Outside the documented domain: n <= 0 and n >= 2^32 must still give a code in 0..40
// (the function promises the maximum for too large values).
func VH_C18_encode_clamp() {
	n := vNondetI64("n")
	vUnwind(64)
	c := EncodeDictCap(n)
	vAssert(c <= 40, "code in range for every int64")
	if n > 1<<32-1 {
		vAssert(c == 40, "too large capacities map to the maximum code")
	}
	if n <= 4096 {
		vAssert(c == 0, "capacities up to 4 KiB map to code 0")
	}
}

func VH_C18_decode() {
	c := vNondetU8("c")
	d, err := DecodeDictCap(c)
	vAssert((err == nil) == (c <= 40), "accepts exactly 0..40")
	if c <= 40 {
		vAssert(d == specDictSize(c), "decode = spec")
		vAssert(d >= 4096 && d <= 1<<32-1, "4 KiB .. 4 GiB-1")
	}
	if c < 40 {
		c1 := c + 1
		d1, err1 := DecodeDictCap(c1)
		vAssert(err1 == nil && d < d1, "strictly increasing")
	}
	if c > 40 {
		vAssert(d == 0, "rejected code yields no size")
	}
}
