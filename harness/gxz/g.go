package main

import (
	"bufio"
	"errors"
	"io"
	"os"

	"github.com/ulikunitz/xz/internal/gflag"
)

// Lemmas G1 (C10) and G2 (C15): the real control flow of cmd/gxz - main's
// file loop, normalizeFormat, processFile, newReader, openFile,
// readerFormat, newDecompressor, newWriter, targetName, tmpName,
// writer.Close, reader.Close, reader.Perm - interpreted over a model file
// system. Every model system call may fail (symbolic flag); after every
// mutating call the data-preservation invariant is asserted, which is the
// crash-point quantifier: a kill between two system calls leaves exactly
// one of the states the assertion has seen.
//
// Model codecs: a file's first byte says what it is ('X' .xz, 'L' .lzma,
// 'P' plain), the second byte its condition ('v' valid, 'c' corrupt,
// 't' truncated); the rest is the user's data. The real codecs are the
// subject of the library properties; here they are replaced in the
// `formats` table by models that honour their contracts.

// ---- model file system -------------------------------------------------------

type vNode struct {
	name    string
	exists  bool
	content []byte
	mode    os.FileMode
	dir     bool
}

var (
	vFS       []*vNode
	vOpen     []*vHandle
	vFaults   int  // faults injected so far
	vMaxFault int  // bound on injected faults per run
	vStdoutF  *os.File
	vStdinF   *os.File
	vStdoutB  []byte
	vExitCode int
	vExited   bool
	vUser     []vUserFile // what the user had before the run
	vMutated  int
)

type vUserFile struct {
	overwritable bool // an existing target: -f permits replacing it
	name    string
	content []byte
	mode    os.FileMode
	data    []byte // the user's data in plain form
}

type vHandle struct {
	failed bool // an I/O error on a handle is persistent
	f      *os.File
	node   *vNode
	pos    int
	closed bool
	write  bool
}

var (
	vErrNotExist = errors.New("model: no such file")
	vErrExist    = errors.New("model: file exists")
	vErrIO       = errors.New("model: input/output error")
)

func vLookup(name string) *vNode {
	for _, n := range vFS {
		if n.name == name {
			return n
		}
	}
	return nil
}

func vHandleOf(f *os.File) *vHandle {
	for _, h := range vOpen {
		if h.f == f {
			return h
		}
	}
	return nil
}

// vFault decides whether the current model system call fails.
func vFault(what string) bool {
	if vFaults >= vMaxFault {
		return false
	}
	if vNondetBool("fail:" + what) {
		vFaults++
		vFaultIn[vCur] = true
		if what == "remove" || what == "close" {
			vRmFault = true
		}
		return true
	}
	return false
}

type vFileInfo struct {
	os.FileInfo
	mode os.FileMode
}

func (fi *vFileInfo) Mode() os.FileMode { return fi.mode }

func vLstat(name string) (os.FileInfo, error) {
	vCurrentFile(name)
	n := vLookup(name)
	if n == nil || !n.exists {
		return nil, &os.PathError{Op: "lstat", Path: name, Err: vErrNotExist}
	}
	if vFault("lstat") {
		return nil, &os.PathError{Op: "lstat", Path: name, Err: vErrIO}
	}
	return &vFileInfo{mode: n.mode}, nil
}

func vStat(name string) (os.FileInfo, error) {
	n := vLookup(name)
	if n == nil || !n.exists {
		return nil, &os.PathError{Op: "stat", Path: name, Err: vErrNotExist}
	}
	return &vFileInfo{mode: n.mode}, nil
}

func vIsNotExist(err error) bool {
	pe, ok := err.(*os.PathError)
	return ok && pe.Err == vErrNotExist
}

func vOpenR(name string) (*os.File, error) {
	n := vLookup(name)
	if n == nil || !n.exists {
		return nil, &os.PathError{Op: "open", Path: name, Err: vErrNotExist}
	}
	if vFault("open") {
		return nil, &os.PathError{Op: "open", Path: name, Err: vErrIO}
	}
	f := new(os.File)
	vOpen = append(vOpen, &vHandle{f: f, node: n})
	return f, nil
}

func vOpenFile(name string, flag int, perm os.FileMode) (*os.File, error) {
	vAssert(flag&os.O_EXCL != 0 && flag&os.O_CREATE != 0, "output files are created exclusively")
	n := vLookup(name)
	if n != nil && n.exists {
		return nil, &os.PathError{Op: "open", Path: name, Err: vErrExist}
	}
	if vFault("create") {
		return nil, &os.PathError{Op: "open", Path: name, Err: vErrIO}
	}
	if n == nil {
		n = &vNode{name: name}
		vFS = append(vFS, n)
	}
	n.exists, n.content, n.mode = true, nil, perm
	vCreatedPerm = perm
	f := new(os.File)
	vOpen = append(vOpen, &vHandle{f: f, node: n, write: true})
	vMutation("create " + name)
	return f, nil
}

var vCreatedPerm os.FileMode

func vRemove(name string) error {
	n := vLookup(name)
	if n == nil || !n.exists {
		return &os.PathError{Op: "remove", Path: name, Err: vErrNotExist}
	}
	if vFault("remove") {
		return &os.PathError{Op: "remove", Path: name, Err: vErrIO}
	}
	n.exists = false
	vMutation("remove " + name)
	return nil
}

func vRename(from, to string) error {
	a := vLookup(from)
	if a == nil || !a.exists {
		return &os.PathError{Op: "rename", Path: from, Err: vErrNotExist}
	}
	if vFault("rename") {
		return &os.PathError{Op: "rename", Path: from, Err: vErrIO}
	}
	b := vLookup(to)
	if b == nil {
		b = &vNode{name: to}
		vFS = append(vFS, b)
	}
	if a != b {
		b.exists, b.content, b.mode = true, a.content, a.mode
		a.exists = false
	}
	vMutation("rename " + from + " -> " + to)
	return nil
}

func vFileClose(f *os.File) error {
	h := vHandleOf(f)
	if h == nil {
		return nil // stdin/stdout
	}
	if h.closed {
		return vErrIO
	}
	h.closed = true
	if h.write && vFault("close") {
		return &os.PathError{Op: "close", Path: h.node.name, Err: vErrIO}
	}
	return nil
}

func vFileStat(f *os.File) (os.FileInfo, error) {
	h := vHandleOf(f)
	if h == nil {
		return nil, vErrIO
	}
	return &vFileInfo{mode: h.node.mode}, nil
}

func vFileName(f *os.File) string {
	if f == vStdoutF {
		return "/dev/stdout"
	}
	if f == vStdinF {
		return "/dev/stdin"
	}
	return vHandleOf(f).node.name
}

func vFileFd(f *os.File) uintptr {
	if f == vStdinF {
		return 0
	}
	if f == vStdoutF {
		return 1
	}
	return 7
}

func vFileRead(f *os.File, p []byte) (int, error) {
	h := vHandleOf(f)
	if h == nil {
		return 0, io.EOF
	}
	if h.pos >= len(h.node.content) {
		return 0, io.EOF
	}
	if h.failed || vFault("read") {
		h.failed = true
		return 0, &os.PathError{Op: "read", Path: h.node.name, Err: vErrIO}
	}
	n := copy(p, h.node.content[h.pos:])
	h.pos += n
	return n, nil
}

func vFileWrite(f *os.File, p []byte) (int, error) {
	if f == vStdoutF {
		vStdoutB = append(vStdoutB, p...)
		return len(p), nil
	}
	h := vHandleOf(f)
	if vFault("write") {
		k := len(p) / 2
		h.node.content = append(h.node.content, p[:k]...)
		return k, &os.PathError{Op: "write", Path: h.node.name, Err: vErrIO}
	}
	h.node.content = append(h.node.content, p...)
	return len(p), nil
}

// ---- model codecs --------------------------------------------------------------

type vCompressor struct {
	w      io.Writer
	tag    byte
	wrote  bool
	closed bool
}

func (c *vCompressor) Write(p []byte) (int, error) {
	if !c.wrote {
		c.wrote = true
		if _, err := c.w.Write([]byte{c.tag, 'v'}); err != nil {
			return 0, err
		}
	}
	return c.w.Write(p)
}

func (c *vCompressor) Close() error {
	if !c.wrote {
		c.wrote = true
		if _, err := c.w.Write([]byte{c.tag, 'v'}); err != nil {
			return err
		}
	}
	// the trailer: a stream that was not closed is incomplete
	_, err := c.w.Write([]byte{'$'})
	c.closed = true
	return err
}

type vDecompressor struct {
	br    *bufio.Reader
	tag   byte
	state int // 0 header not read
	cond  byte
}

func (d *vDecompressor) Read(p []byte) (int, error) {
	if d.state == 0 {
		hdr := make([]byte, 2)
		if _, err := io.ReadFull(d.br, hdr); err != nil {
			return 0, io.ErrUnexpectedEOF
		}
		d.cond = hdr[1]
		d.state = 1
	}
	c, err := d.br.ReadByte()
	if err != nil {
		if err == io.EOF {
			return 0, io.ErrUnexpectedEOF // no trailer: truncated
		}
		return 0, err
	}
	if c == '$' {
		if d.cond == 'c' {
			return 0, errors.New("model: checksum error")
		}
		return 0, io.EOF
	}
	if len(p) == 0 {
		d.br.UnreadByte()
		return 0, nil
	}
	p[0] = c
	return 1, nil
}

func vInstallCodecs() {
	for name, tag := range map[string]byte{"xz": 'X', "lzma": 'L'} {
		tag := tag
		f := formats[name]
		f.newCompressor = func(w io.Writer, opts *options) (io.WriteCloser, error) {
			vAssert(opts.preset >= 0 && opts.preset <= 9, "preset within the table")
			vSeenPreset = opts.preset
			return &vCompressor{w: w, tag: tag}, nil
		}
		f.newDecompressor = func(r io.Reader, opts *options) (io.Reader, error) {
			return &vDecompressor{br: r.(*bufio.Reader), tag: tag}, nil
		}
		f.validHeader = func(br *bufio.Reader) bool {
			h, err := br.Peek(1)
			return err == nil && h[0] == tag
		}
	}
}

// compressed form of data as the model compressor writes it
func vPacked(tag byte, data []byte) []byte {
	out := []byte{tag, 'v'}
	out = append(out, data...)
	return append(out, '$')
}

func vEqual(a, b []byte) bool {
	if len(a) != len(b) {
		return false
	}
	for i := range a {
		if a[i] != b[i] {
			return false
		}
	}
	return true
}

// ---- the data-preservation invariant (G1) --------------------------------------

// vHolds reports whether some path holds user file u's data in complete form.
func vHolds(u *vUserFile) bool {
	for _, n := range vFS {
		if !n.exists {
			continue
		}
		c := n.content
		if vEqual(c, u.content) {
			return true // the original, or an identical copy
		}
		if vEqual(c, u.data) {
			return true // plain form
		}
		if vEqual(c, vPacked('X', u.data)) || vEqual(c, vPacked('L', u.data)) {
			return true // complete compressed form
		}
		if vEqual(c, vPacked('X', u.content)) || vEqual(c, vPacked('L', u.content)) {
			return true // the file as it was, compressed completely
		}
	}
	return false
}

func vMutation(what string) {
	vMutated++
	vObs("fs: "+what, uint64(vMutated))
	for i := range vUser {
		u := &vUser[i]
		if len(u.data) == 0 && u.content[1] != 'v' {
			continue // corrupt/truncated input: its plain form does not exist
		}
		if u.overwritable && vForce {
			continue // the user asked for the existing target to be replaced
		}
		vAssert(vHolds(u), "at every instant the user's data exists in at least one complete form")
	}
}

// ---- environment substitutions ---------------------------------------------------

var vForce bool
var vOpts *options
var vArgs []string
var vSetOpts func(o *options)

func vInit(o *options) { vOpts = o; vSetOpts(o) }

func vExit(code int) {
	vObs("exit", uint64(code))
	vExitCode = code
	vExited = true
	vFinal()
	vEndPath()
}

func vFatal(v ...interface{}) { vExit(1) }

func vSignalHandler(w *writer) chan<- struct{} { return make(chan struct{}) }

func vInstall() {
	vFS, vOpen, vUser = nil, nil, nil
	vFaults, vMutated, vExited, vExitCode = 0, 0, false, 0
	vFiles, vArgs, vCur, vRmFault = nil, nil, 0, false
	vSeenPreset = -1
	vFaultIn = [4]bool{}
	vStdoutB = nil
	vStdoutF, vStdinF = new(os.File), new(os.File)
	os.Stdout, os.Stdin = vStdoutF, vStdinF
	os.Args = []string{"gxz"}
	vInstallCodecs()
	vSubst("os.Lstat", vLstat)
	vSubst("os.Stat", vStat)
	vSubst("os.IsNotExist", vIsNotExist)
	vSubst("os.Open", vOpenR)
	vSubst("os.OpenFile", vOpenFile)
	vSubst("os.Remove", vRemove)
	vSubst("os.Rename", vRename)
	vSubst("os.(*File).Close", vFileClose)
	vSubst("os.(*File).Stat", vFileStat)
	vSubst("os.(*File).Name", vFileName)
	vSubst("os.(*File).Fd", vFileFd)
	vSubst("os.(*File).Read", vFileRead)
	vSubst("os.(*File).Write", vFileWrite)
	vSubst("os.Exit", vExit)
	vSubst("signalHandler", vSignalHandler)
	vSubst("(*options).Init", vInit)
	vSubst("gflag.Parse", func() {})
	vSubst("gflag.NArg", func() int { return len(vArgs) })
	vSubst("gflag.Args", func() []string { return vArgs })
	vSubst("gflag.NewFlagSet", func(name string, h gflag.ErrorHandling) *gflag.FlagSet { return nil })
	vSubst("xlog.Fatal", vFatal)
	vSubst("xlog.Fatalf", func(format string, v ...interface{}) { vExit(1) })
	vSubst("xlog.Panicf", func(format string, v ...interface{}) { vExit(2) })
	vSubst("term.IsTerminal", func(fd uintptr) bool { return false })
	vSubst("pprof.StopCPUProfile", func() {})
}

// vAddFile puts a user file into the model file system.
func vAddFile(name string, tag, cond byte, data []byte, mode os.FileMode) {
	var content []byte
	switch {
	case tag == 'P':
		content = append([]byte{'P', '.'}, data...)
		vUser = append(vUser, vUserFile{name: name, content: content, mode: mode, data: content})
	case cond == 'v':
		content = vPacked(tag, data)
		vUser = append(vUser, vUserFile{name: name, content: content, mode: mode, data: data})
	case cond == 'c':
		content = vPacked(tag, data)
		content[1] = 'c'
		vUser = append(vUser, vUserFile{name: name, content: content, mode: mode})
	default: // truncated: no trailer
		content = append([]byte{tag, 'v'}, data...)
		vUser = append(vUser, vUserFile{name: name, content: content, mode: mode})
	}
	vFS = append(vFS, &vNode{name: name, exists: true, content: content, mode: mode})
}

var vFinal func()

// ---- scenario and the documented semantics -----------------------------------------

type vScenFile struct {
	name string
	tag  byte // 'P', 'X', 'L'
	cond byte // 'v', 'c', 't' ('.' for plain)
	data []byte
	mode os.FileMode
}

var (
	vFiles      []vScenFile
	vCur        int
	vFaultIn    [4]bool // a fault was injected while file i was being processed
	vRmFault    bool    // a remove or close fault was injected (the temp file may be stuck)
	vPreTarget  string  // name of a file that existed under a target name before the run
	vPreContent []byte
)

func vHasSuffix(s, suf string) bool {
	return len(s) >= len(suf) && s[len(s)-len(suf):] == suf
}

// vExpect is the documented behaviour for one file given the options as set
// on the command line (independent of any other file): ok, final target name
// and the complete output.
func vExpect(f vScenFile, dec, stdout, force bool, format string) (ok bool, target string, out []byte) {
	if format == "alone" {
		format = "lzma"
	}
	content := []byte(nil)
	for _, u := range vUser {
		if u.name == f.name {
			content = u.content
		}
	}
	if !dec {
		if format == "auto" {
			format = "xz"
		}
		ext, tarExt, tag := ".xz", ".txz", byte('X')
		if format == "lzma" {
			ext, tarExt, tag = ".lzma", ".tlz", 'L'
		}
		if !stdout && (vHasSuffix(f.name, ext) || vHasSuffix(f.name, tarExt)) {
			return false, "", nil // already carries the suffix (only checked when a file is to be created)
		}
		return true, f.name + ext, vPacked(tag, content)
	}
	// decompression: the content decides under auto, otherwise it must be the named format
	if f.tag == 'P' {
		return false, "", nil
	}
	if format == "xz" && f.tag != 'X' || format == "lzma" && f.tag != 'L' {
		return false, "", nil
	}
	ext, tarExt := ".xz", ".txz"
	if f.tag == 'L' {
		ext, tarExt = ".lzma", ".tlz"
	}
	switch {
	case vHasSuffix(f.name, ext) && len(f.name) > len(ext):
		target = f.name[:len(f.name)-len(ext)]
	case vHasSuffix(f.name, tarExt) && len(f.name) > len(tarExt):
		target = f.name[:len(f.name)-len(tarExt)] + ".tar"
	default:
		if !stdout {
			return false, "", nil // no known suffix: the name of the output cannot be derived
		}
	}
	if f.cond != 'v' {
		return false, "", nil
	}
	return true, target, f.data
}

func vCurrentFile(name string) {
	for i, f := range vFiles {
		if f.name == name {
			vCur = i
		}
	}
}

func vScenario() (dec, keep, force, stdout bool, format string) {
	vInstall()
	vMaxFault = 1
	if vThorough() {
		vMaxFault = 2
	}
	names := []string{"a", "a.xz", "a.lzma", "a.txz"}
	type kc struct{ tag, cond byte }
	kinds := []kc{{'P', '.'}, {'X', 'v'}, {'L', 'v'}, {'X', 't'}, {'X', 'c'}}
	combo := vConcretize(int(vNondetU8("file1")) % (len(names) * len(kinds)))
	vAssume(combo%vShards() == vShardIdx())
	f1 := vScenFile{name: names[combo%len(names)], tag: kinds[combo/len(names)].tag, cond: kinds[combo/len(names)].cond, data: []byte("DATA1"), mode: 0640}
	vFiles = []vScenFile{f1}
	switch vConcretize(int(vNondetU8("file2")) % 3) {
	case 1:
		vFiles = append(vFiles, vScenFile{name: "b.lzma", tag: 'L', cond: 'v', data: []byte("data2"), mode: 0604})
	case 2:
		vFiles = append(vFiles, vScenFile{name: "b", tag: 'P', cond: '.', data: []byte("data2"), mode: 0666})
	}
	for _, f := range vFiles {
		vAddFile(f.name, f.tag, f.cond, f.data, f.mode)
		vArgs = append(vArgs, f.name)
	}
	format = []string{"auto", "xz", "lzma", "alone"}[vConcretize(int(vNondetU8("format"))%4)]
	dec, keep, force, stdout = vNondetBool("decompress"), vNondetBool("keep"), vNondetBool("force"), vNondetBool("stdout")
	vForce = force
	vSetOpts = func(o *options) {
		o.decompress, o.keep, o.force, o.stdout = dec, keep, force, stdout
		o.format = format
		o.preset = 6
	}
	// optionally something already lives under the first file's target name
	vPreTarget, vPreContent = "", nil
	if vNondetBool("targetExists") {
		if ok, t, _ := vExpect(f1, vConcretizeBool(dec), vConcretizeBool(stdout), vConcretizeBool(force), format); ok && t != "" {
			vPreTarget, vPreContent = t, []byte("P.older file")
			vFS = append(vFS, &vNode{name: t, exists: true, content: vPreContent, mode: 0600})
			vUser = append(vUser, vUserFile{name: t, content: vPreContent, mode: 0600, data: vPreContent, overwritable: true})
		}
	}
	return
}

func vConcretizeBool(b bool) bool {
	x := 0
	if b {
		x = 1
	}
	return vConcretize(x) == 1
}

func VH_G_main() {
	dec, keep, force, stdout, format := vScenario()
	vFinalFor(dec, keep, force, stdout, format)
	main()
	vAssert(vExited, "main ends through os.Exit")
}

// vFinalFor installs the end-of-run assertions for the given option values.
func vFinalFor(dec, keep, force, stdout bool, format string) {
	vForce = force
	vFinal = func() {
		anyFail := false
		for i, f := range vFiles {
			ok, target, out := vExpect(f, dec, stdout, force, format)
			if ok && !stdout && target == vPreTarget && !force {
				ok = false // existing target is never overwritten without -f
			}
			if vFaultIn[i] {
				ok = false
			}
			in := vLookup(f.name)
			orig := []byte(nil)
			for _, u := range vUser {
				if u.name == f.name {
					orig = u.content
				}
			}
			if !ok {
				anyFail = true
				vAssert(in.exists && vEqual(in.content, orig), "a file that could not be processed is left untouched")
				if target != "" && target != f.name {
					t := vLookup(target)
					if t != nil && t.exists {
						vAssert(vEqual(t.content, out) || (target == vPreTarget && vEqual(t.content, vPreContent)),
							"a failing run leaves no partial file under the target name")
					}
				}
				continue
			}
			if stdout {
				vAssert(in.exists && vEqual(in.content, orig), "-c keeps the input")
				continue
			}
			vAssert(target != f.name, "the output name always differs from the input name")
			t := vLookup(target)
			if t != nil {
				vObs("target:"+target+" len", uint64(len(t.content)))
				vObs("expected len", uint64(len(out)))
			}
			vAssert(t != nil && t.exists && vEqual(t.content, out), "the complete output is in place under its final name")
			vAssert(t.mode&^(f.mode&0666) == 0, "the output is never more permissive than the input")
			if keep {
				vAssert(in.exists && vEqual(in.content, orig), "-k keeps the input")
			} else {
				vAssert(!in.exists, "the input is removed after success")
			}
		}
		vAssert((vExitCode != 0) == anyFail, "exit status is non-zero exactly when some file could not be processed")
		if stdout {
			for _, n := range vFS {
				known := false
				for _, u := range vUser {
					if u.name == n.name {
						known = true
					}
				}
				vAssert(!n.exists || known, "-c creates no file")
			}
		}
		if !vRmFault {
			for _, n := range vFS {
				vAssert(!n.exists || !(vHasSuffix(n.name, ".compress") || vHasSuffix(n.name, ".decompress")), "no temporary file remains after the run")
			}
		}
	}
}

// ---- G-argv (C15): the real gflag parser on concrete argument vectors ---------------
//
// VH_G_main enters options as symbolic values after parsing. Here the real
// (*options).Init, gflag.NewFlagSet and gflag.Parse run on a menu of argument
// vectors (bundled short options, options after operands, "--", -F/--format
// with and without '=', presets, counters), and the run is judged by the same
// end-of-run assertions against the options the vector means under the
// documented GNU conventions.

type vArgv struct {
	argv                     []string
	dec, keep, force, stdout bool
	format                   string
	preset                   int
	files                    []string
}

var vMenu = []vArgv{
	{argv: []string{"-k", "a"}, keep: true, format: "auto", preset: 6, files: []string{"a"}},
	{argv: []string{"-dk", "a.xz"}, dec: true, keep: true, format: "auto", preset: 6, files: []string{"a.xz"}},
	{argv: []string{"--", "-k"}, format: "auto", preset: 6, files: []string{"-k"}},
	{argv: []string{"--", "a", "-k"}, format: "auto", preset: 6, files: []string{"a", "-k"}},
	{argv: []string{"-k", "--", "-f", "b"}, keep: true, format: "auto", preset: 6, files: []string{"-f", "b"}},
	{argv: []string{"-F", "lzma", "a"}, format: "lzma", preset: 6, files: []string{"a"}},
	{argv: []string{"--format=lzma", "a"}, format: "lzma", preset: 6, files: []string{"a"}},
	{argv: []string{"--format", "alone", "-d", "b.lzma"}, dec: true, format: "alone", preset: 6, files: []string{"b.lzma"}},
	{argv: []string{"-c", "a"}, stdout: true, format: "auto", preset: 6, files: []string{"a"}},
	{argv: []string{"-dc", "a.xz"}, dec: true, stdout: true, format: "auto", preset: 6, files: []string{"a.xz"}},
	{argv: []string{"-9", "a"}, format: "auto", preset: 9, files: []string{"a"}},
	{argv: []string{"-0", "-k", "a"}, keep: true, format: "auto", preset: 0, files: []string{"a"}},
	{argv: []string{"-vv", "-q", "a"}, format: "auto", preset: 6, files: []string{"a"}},
	{argv: []string{"a", "-k"}, keep: true, format: "auto", preset: 6, files: []string{"a"}},
	{argv: []string{"-f", "--decompress", "a.xz", "b.lzma"}, dec: true, force: true, format: "auto", preset: 6, files: []string{"a.xz", "b.lzma"}},
	{argv: []string{"--keep", "--force", "--stdout", "a"}, keep: true, force: true, stdout: true, format: "auto", preset: 6, files: []string{"a"}},
}

// "-z, --compress  force compression" is listed in the usage text
var vMenuZ = []vArgv{
	{argv: []string{"-z", "a"}, format: "auto", preset: 6, files: []string{"a"}},
	{argv: []string{"--compress", "-k", "a"}, keep: true, format: "auto", preset: 6, files: []string{"a"}},
}

var vSeenPreset = -1

func VH_G_argv()  { vArgvHarness(vMenu, "") }
func VH_G_argvZ() { vArgvHarness(vMenuZ, " (-z/--compress as documented in the usage text)") }

func vArgvHarness(menu []vArgv, note string) {
	vInstall()
	// the real option machinery runs: undo the substitutions of VH_G_main
	vUnsubst("(*options).Init")
	vUnsubst("gflag.Parse")
	vUnsubst("gflag.NArg")
	vUnsubst("gflag.Args")
	vUnsubst("gflag.NewFlagSet")
	vSubst("gflag.(*FlagSet).addLine", func(f *gflag.FlagSet, l interface{}) {}) // usage text only
	vMaxFault = 0
	k := vConcretize(int(vNondetU8("argv")) % len(menu))
	e := menu[k]
	os.Args = append([]string{"gxz"}, e.argv...)
	for _, name := range e.files {
		tag, cond := byte('P'), byte('.')
		if vHasSuffix(name, ".xz") {
			tag, cond = 'X', 'v'
		} else if vHasSuffix(name, ".lzma") {
			tag, cond = 'L', 'v'
		}
		f := vScenFile{name: name, tag: tag, cond: cond, data: []byte("DATA"), mode: 0644}
		vFiles = append(vFiles, f)
		vAddFile(f.name, f.tag, f.cond, f.data, f.mode)
	}
	vFinalFor(e.dec, e.keep, e.force, e.stdout, e.format)
	inner := vFinal
	vFinal = func() {
		if note != "" {
			vAssert(vExitCode == 0, "the option is accepted"+note)
		}
		if !e.dec {
			vAssert(vSeenPreset == e.preset, "the preset given on the command line reaches the compressor")
		}
		inner()
	}
	main()
	vAssert(vExited, "main ends through os.Exit")
}
